package main

import (
	"encoding/hex"
	"testing"
)

// The coverage-guided halves of the text-layer fuzz streams. The targets only call the real readers (a panic of a
// reader is an outcome that the harness records, not a failure of the target): what matters is the corpus of inputs
// with new coverage, which is replayed against the Lean models afterwards.

func seedTexts(stream string, n int) []string {
	var out []string
	r := NewRNG(7)
	for i := 0; i < n; i++ {
		c := gens[stream](r.Fork(uint64(i)), "seed")
		t := c.Get("text")
		if stream == "C14gff" {
			out = append(out, rleDec(t))
		} else if b, err := hex.DecodeString(t); err == nil {
			out = append(out, string(b))
		}
	}
	return out
}

func FuzzSamText(f *testing.F) {
	for _, s := range seedTexts("C01sam", 30) {
		if len(s) <= 4096 {
			f.Add([]byte(s))
		}
	}
	f.Fuzz(func(t *testing.T, data []byte) {
		if len(data) > 4096 {
			return
		}
		c := NewCase("SAMTXT", "f")
		c.Set("text", hex.EncodeToString(data))
		execSamText(nil, c)
	})
}

func FuzzGffText(f *testing.F) {
	for _, s := range seedTexts("C14gff", 30) {
		if len(s) <= 4096 {
			f.Add([]byte(s))
		}
	}
	f.Fuzz(func(t *testing.T, data []byte) {
		if len(data) > 4096 {
			return
		}
		gffOutcome(string(data))
	})
}

func FuzzGbText(f *testing.F) {
	for _, s := range seedTexts("C14gb", 30) {
		if len(s) <= 4096 {
			f.Add([]byte(s))
		}
	}
	f.Fuzz(func(t *testing.T, data []byte) {
		if len(data) > 4096 {
			return
		}
		c := NewCase("GBTXT", "f")
		c.Set("text", hex.EncodeToString(data))
		execGb(nil, c)
	})
}
