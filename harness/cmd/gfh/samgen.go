package main

import (
	"bytes"
	"fmt"
	"io"
	"os"
	"os/exec"
	"path/filepath"
	"strings"
	"time"

	"github.com/virus-evolution/gofasta/pkg/sam"
)

type samRec struct {
	name  string
	flag  int
	pos   int // 1-based POS
	cigar string
	seq   string
}

func (r samRec) proto() string {
	return strings.Join([]string{r.name, fmt.Sprint(r.flag), fmt.Sprint(r.pos), r.cigar, r.seq}, "~")
}

func (r samRec) line(rname string) string {
	return strings.Join([]string{r.name, fmt.Sprint(r.flag), rname, fmt.Sprint(r.pos), "60", r.cigar, "*", "0", "0", r.seq, "*"}, "\t")
}

func samText(rname string, L int, recs []samRec, header bool) string {
	var b strings.Builder
	if header {
		fmt.Fprintf(&b, "@HD\tVN:1.6\tSO:unsorted\n@SQ\tSN:%s\tLN:%d\n@PG\tID:verif\tPN:verif\n", rname, L)
	}
	for _, r := range recs {
		b.WriteString(r.line(rname) + "\n")
	}
	return b.String()
}

type cigarOpts struct {
	maxIns    int  // maximum number of I operators
	noTrailIn bool // no insertion as the first or last reference-neighbouring operator
}

// randCigar builds a CIGAR spanning exactly `span` reference bases starting at 0-based `start`, and the SEQ
// that goes with it, copying `template` (the query's underlying genome in reference coordinates) on M/=/X
func randCigar(r *RNG, ref, template string, start, span int, o cigarOpts) (string, string) {
	var cig, seq strings.Builder
	if r.Chance(1, 5) {
		fmt.Fprintf(&cig, "%dH", r.Range(1, 9))
	}
	if r.Chance(1, 4) {
		n := r.Range(1, 4)
		fmt.Fprintf(&cig, "%dS", n)
		seq.WriteString(randSeq(r, n, symACGT, false))
	}
	p := start
	end := start + span
	nins := 0
	first := true
	lastWasI := false
	for p < end {
		remaining := end - p
		k := r.Intn(20)
		switch {
		case k < 10: // M / = / X
			n := r.Range(1, remaining)
			if n > 12 && r.Bool() {
				n = r.Range(1, 12)
			}
			op := "M"
			sub := template[p : p+n]
			if r.Chance(1, 6) {
				if sub == ref[p:p+n] {
					op = "="
				} else {
					op = "M"
				}
			} else if r.Chance(1, 10) {
				op = "X"
			}
			fmt.Fprintf(&cig, "%d%s", n, op)
			seq.WriteString(sub)
			p += n
			lastWasI = false
		case k < 13: // D (also as the very first / very last reference-consuming operator)
			n := r.Range(1, min(remaining, 4))
			fmt.Fprintf(&cig, "%dD", n)
			p += n
			lastWasI = false
		case k < 15: // N
			n := r.Range(1, min(remaining, 5))
			fmt.Fprintf(&cig, "%dN", n)
			p += n
			lastWasI = false
		case k < 18: // I (adjacent to D allowed; two I in a row are not produced)
			// a leading insertion is kept out of non-first records of a query; before reference base 1 (ins:0:n) it is allowed
			if nins < o.maxIns && !lastWasI && !(o.noTrailIn && first && start != 0) {
				n := r.Range(1, 3)
				fmt.Fprintf(&cig, "%dI", n)
				seq.WriteString(randSeq(r, n, symACGT, false))
				nins++
				lastWasI = true
			}
		default:
			if r.Chance(1, 3) {
				fmt.Fprintf(&cig, "%dP", r.Range(1, 2))
			}
		}
		first = false
	}
	if nins < o.maxIns && !o.noTrailIn && !lastWasI && r.Chance(1, 6) { // insertion after the last aligned base
		n := r.Range(1, 3)
		fmt.Fprintf(&cig, "%dI", n)
		seq.WriteString(randSeq(r, n, symACGT, false))
	}
	if r.Chance(1, 4) {
		n := r.Range(1, 4)
		fmt.Fprintf(&cig, "%dS", n)
		seq.WriteString(randSeq(r, n, symACGT, false))
	}
	if r.Chance(1, 5) {
		fmt.Fprintf(&cig, "%dH", r.Range(1, 9))
	}
	s := seq.String()
	if s == "" {
		s = "*"
	}
	return cig.String(), s
}

type cigOp struct {
	n  int
	op byte
}

func parseCigarOps(c string) []cigOp {
	var out []cigOp
	n := 0
	for i := 0; i < len(c); i++ {
		if c[i] >= '0' && c[i] <= '9' {
			n = n*10 + int(c[i]-'0')
		} else {
			out = append(out, cigOp{n, c[i]})
			n = 0
		}
	}
	return out
}

// splitOverlap cuts ONE alignment (cigar, seq, 0-based start) into 2-3 records over overlapping reference intervals
// that agree wherever they overlap. Every insertion is carried by exactly one of the records whose interval
// contains its site, so the records are non-conflicting in the strictest sense: the query they describe is the
// original one. Pieces may begin or end with a deletion, and an insertion may sit right at the end of another piece.
func splitOverlap(r *RNG, cigar, seq string, start0 int, forceSite int) []samRec {
	ops := parseCigarOps(cigar)
	end := start0
	for _, o := range ops {
		if strings.IndexByte("MDN=X", o.op) >= 0 {
			end += o.n
		}
	}
	if end-start0 < 4 {
		return nil
	}
	type iv struct{ from, to int }
	var ivs []iv
	c1 := r.Range(start0+1, end-2)
	ivs = append(ivs, iv{start0, min(end, c1+r.Range(1, 6))})
	if end-c1 >= 6 && r.Chance(1, 3) {
		c2 := r.Range(c1+1, end-2)
		ivs = append(ivs, iv{c1, min(end, c2+r.Range(1, 6))}, iv{c2, end})
	} else {
		ivs = append(ivs, iv{c1, end})
	}
	// half of the time, when there is an insertion well inside: the first piece ends 1-3 bases after that insertion's
	// site and the insertion belongs to the second piece (so it is spliced into the first piece right before its end)
	owner := map[int]int{}
	{
		var sites []int
		p := start0
		for _, o := range ops {
			if strings.IndexByte("MDN=X", o.op) >= 0 {
				p += o.n
			} else if o.op == 'I' && p >= start0+2 && p < end-1 {
				sites = append(sites, p)
			}
		}
		if len(sites) > 0 && (r.Bool() || forceSite >= 0) {
			site := sites[r.Intn(len(sites))]
			if forceSite >= 0 {
				site = forceSite
			}
			ivs = []iv{{start0, min(end, site+r.Range(1, 3))}, {r.Range(start0+1, site-1), end}}
			owner[site] = 1
		}
	}
	// assign each (other) insertion (by its site p: between reference bases p-1 and p) to one piece
	{
		p := start0
		for _, o := range ops {
			switch {
			case strings.IndexByte("MDN=X", o.op) >= 0:
				p += o.n
			case o.op == 'I':
				var cand []int
				for k, v := range ivs {
					if (v.from < p && p < v.to) || (p == start0 && k == 0) || (p == end && k == len(ivs)-1) {
						cand = append(cand, k)
					}
				}
				if _, fixed := owner[p]; !fixed && len(cand) > 0 {
					owner[p] = cand[r.Intn(len(cand))]
				}
			}
		}
	}
	var out []samRec
	for k, v := range ivs {
		var cg, sq strings.Builder
		if r.Chance(1, 2) {
			fmt.Fprintf(&cg, "%dH", r.Range(1, 30))
		}
		p, q := start0, 0
		for _, o := range ops {
			switch {
			case o.op == 'H' || o.op == 'P':
			case o.op == 'S':
				q += o.n
			case o.op == 'I':
				if w, ok := owner[p]; ok && w == k {
					fmt.Fprintf(&cg, "%dI", o.n)
					sq.WriteString(seq[q : q+o.n])
				}
				q += o.n
			default:
				lo, hi := p, p+o.n
				if lo < v.from {
					lo = v.from
				}
				if hi > v.to {
					hi = v.to
				}
				if lo < hi {
					fmt.Fprintf(&cg, "%d%c", hi-lo, o.op)
					if o.op != 'D' && o.op != 'N' {
						sq.WriteString(seq[q+(lo-p) : q+(hi-p)])
					}
				}
				if o.op != 'D' && o.op != 'N' {
					q += o.n
				}
				p += o.n
			}
		}
		if r.Chance(1, 2) {
			fmt.Fprintf(&cg, "%dH", r.Range(1, 30))
		}
		sqs := sq.String()
		if sqs == "" {
			sqs = "*"
		}
		fl := 0
		if k > 0 {
			fl = 2048
		}
		out = append(out, samRec{flag: fl, pos: v.from + 1, cigar: cg.String(), seq: sqs})
	}
	return out
}

func min(a, b int) int {
	if a < b {
		return a
	}
	return b
}

type samCase struct {
	ref   string
	rname string
	recs  []samRec
	tags  map[string]bool
}

// genSam: disjoint=true gives every query non-overlapping records (toPairAlign's precondition)
// set by a generator around a call of genSam: the last query is named like the reference record
var genSamRefNamedQuery bool

// set by a generator around a call of genSam: overlapping agreeing records with a short insertion next to a piece's
// end are drawn much more often (the SAM form of C05 is about exactly those layouts)
var genSamOverlapOften bool

var genSamAtBufferBoundary bool

// set by a generator around a call of genSam: always (or never) the case at scale
var genSamScale int // 0: one case in 20, 1: always, -1: never

// genSamAtScale: sizes beyond any fixed run, pre-allocated row, or machine-word mask of records. One of: a reference of
// some 1200 bases with a deletion and a skipped region of more than 1024 bases (not a power of two); an insertion of more
// than 512 bases (or three of 250) on a short reference; a query cut into 33-70 consecutive records
func genSamAtScale(r *RNG, maxIns int) samCase {
	variant := r.PickStr([]string{"longops", "longins", "manyrecs"})
	if maxIns < 2 && variant == "longins" {
		variant = "longops"
	}
	L := 0
	switch variant {
	case "longops":
		L = r.Range(1150, 1400)
	case "longins":
		L = r.Range(150, 400)
	}
	nrec, w := r.Range(33, 70), r.Range(4, 10)
	if variant == "manyrecs" {
		L = nrec * w // the records cover the reference from its first base to its last ...
		if r.Chance(1, 3) {
			L += r.Range(1, 20) // ... or stop short of the end
		}
	}
	rname := "ref" + fmt.Sprint(r.Intn(9))
	ref := randSeq(r, L, symACGT, false)
	sc := samCase{ref: ref, rname: rname, tags: map[string]bool{"at-scale-" + variant: true}}
	tm := func() string { return mutateSeq(r, ref, symACGT, 1, 40, false) }
	var kinds []string
	switch variant {
	case "longops":
		kinds = []string{"longdel", "longskip", "plain"}
	case "longins":
		kinds = []string{"longins", "threeins", "plain"}
	default:
		kinds = []string{"manyrecs", "plain"}
	}
	for i := len(kinds) - 1; i > 0; i-- {
		j := r.Intn(i + 1)
		kinds[i], kinds[j] = kinds[j], kinds[i]
	}
	for qi, kind := range kinds {
		name := fmt.Sprintf("q%d", qi)
		tmpl := tm()
		switch kind {
		case "longdel", "longskip":
			b := r.PickInt([]int{1025, 1026, 1040, 1100})
			a := r.Range(5, L-b-10)
			st := r.Range(0, L-b-a-5)
			cN := r.Range(3, L-st-a-b)
			op := "D"
			if kind == "longskip" {
				op = "N"
			}
			sc.recs = append(sc.recs, samRec{name: name, flag: 0, pos: st + 1, cigar: fmt.Sprintf("%dM%d%s%dM", a, b, op, cN), seq: tmpl[st:st+a] + tmpl[st+a+b:st+a+b+cN]})
		case "longins":
			k := r.PickInt([]int{513, 600, 1100})
			a := r.Range(20, L/2)
			sc.recs = append(sc.recs, samRec{name: name, flag: 0, pos: 1, cigar: fmt.Sprintf("%dM%dI%dM", a, k, L-a), seq: tmpl[:a] + randSeq(r, k, symACGT, false) + tmpl[a:]})
		case "threeins":
			a := r.Range(10, L/4)
			q := L / 4
			sc.recs = append(sc.recs, samRec{name: name, flag: 0, pos: 1, cigar: fmt.Sprintf("%dM250I%dM250I%dM250I%dM", a, q, q, L-a-2*q),
				seq: tmpl[:a] + randSeq(r, 250, symACGT, false) + tmpl[a:a+q] + randSeq(r, 250, symACGT, false) + tmpl[a+q:a+2*q] + randSeq(r, 250, symACGT, false) + tmpl[a+2*q:]})
		case "manyrecs":
			for k := 0; k < nrec; k++ {
				fl := 2048
				if k == 0 {
					fl = 0
				}
				sc.recs = append(sc.recs, samRec{name: name, flag: fl, pos: k*w + 1, cigar: fmt.Sprintf("%dM", w), seq: tmpl[k*w : k*w+w]})
			}
			sc.tags["multi-record"] = true
		default:
			st := r.Range(0, L/2)
			n := r.Range(10, L-st)
			sc.recs = append(sc.recs, samRec{name: name, flag: 0, pos: st + 1, cigar: fmt.Sprintf("%dM", n), seq: tmpl[st : st+n]})
		}
	}
	return sc
}

func genSam(r *RNG, disjoint bool, maxIns int) samCase {
	if genSamScale >= 0 && !genSamAtBufferBoundary && !genSamRefNamedQuery && (genSamScale == 1 || atScale(r, 20)) {
		return genSamAtScale(r, maxIns)
	}
	L := r.Range(10, 120)
	rname := "ref" + fmt.Sprint(r.Intn(9))
	if genSamAtBufferBoundary {
		// a genome whose line in a FASTA file ends a few bytes before a 4096 * 2^k boundary of the file (the sizes through
		// which a bufio.Scanner's buffer grows): the header that follows the reference record straddles the boundary
		L = (4096 << uint(r.Intn(2))) - len(">"+rname+"\n") - r.Range(0, 8)
	}
	ref := randSeq(r, L, symACGT, false)
	sc := samCase{ref: ref, rname: rname, tags: map[string]bool{}}
	if genSamAtBufferBoundary {
		sc.tags["genome-ends-at-buffer-boundary"] = true
	}
	nq := r.Range(1, 6)
	for qi := 0; qi < nq; qi++ {
		name := fmt.Sprintf("q%d", qi)
		if genSamRefNamedQuery && qi == nq-1 && nq > 1 {
			name = sc.rname // a read that carries the reference's own name (the reference aligned with the samples)
			sc.tags["read-named-like-reference"] = true
		}
		// the query's genome in reference coordinates
		tmpl := mutateSeq(r, ref, symACGT, 1, 8, false)
		if r.Chance(1, 4) {
			tmpl = mutateSeq(r, tmpl, "RYSWKMBDHVN", 1, 12, false)
		}
		nrec := 1
		if r.Chance(2, 5) {
			nrec = r.Range(2, 3)
		}
		var recs []samRec
		if genSamOverlapOften && maxIns >= 2 && L >= 40 && r.Chance(1, 2) {
			// three records: the second overlaps the end of the first by two bases and carries a short insertion inside
			// that overlap and a longer one further right; the third starts after the second. Every row has to receive
			// both insertions' gap columns, the longer one into rows that already hold the shorter
			a := r.Range(12, L/2-4)
			k1 := 1
			k2 := r.Range(2, min(maxIns, 4))
			m1 := r.Range(6, L/2-8)
			e2 := min(L-6, a-1+1+m1+r.Range(4, 10)) // reference end (exclusive, 0-based) of the second record
			m2 := e2 - (a - 1) - 1 - m1
			if m2 >= 2 {
				recs = append(recs,
					samRec{name: name, flag: 0, pos: 1, cigar: fmt.Sprintf("%dM%dH", a+1, L-a-1), seq: tmpl[:a+1]}, // one base beyond the insertion site
					samRec{name: name, flag: 2048, pos: a, cigar: fmt.Sprintf("%dH1M%dI%dM%dI%dM", a-1, k1, m1, k2, m2),
						seq: tmpl[a-1:a] + randSeq(r, k1, symACGT, false) + tmpl[a:a+m1] + randSeq(r, k2, symACGT, false) + tmpl[a+m1:e2]},
					samRec{name: name, flag: 2048, pos: e2 + 1, cigar: fmt.Sprintf("%dH%dM", e2, L-e2), seq: tmpl[e2:]})
				sc.tags["multi-record"] = true
				sc.tags["three-records-short-insertion-in-overlap"] = true
			}
		}
		if len(recs) == 0 && L >= 16 && nq >= 2 && qi < nq-1 && r.Chance(1, 12) {
			// a query in three consecutive pieces, the last one reaching the last reference base, followed by a query in
			// two pieces (whatever a worker keeps per record slot from one query must not reach the next, shorter one)
			a := r.Range(3, L/3)
			b := r.Range(a+3, 2*L/3)
			recs = append(recs,
				samRec{name: name, flag: 0, pos: 1, cigar: fmt.Sprintf("%dM", a), seq: tmpl[:a]},
				samRec{name: name, flag: 2048, pos: a + 1, cigar: fmt.Sprintf("%dM", b-a), seq: tmpl[a:b]},
				samRec{name: name, flag: 2048, pos: b + 1, cigar: fmt.Sprintf("%dM", L-b), seq: tmpl[b:]})
			for k := 0; k < len(recs); k++ {
				sc.recs = append(sc.recs, recs[k])
			}
			t2 := mutateSeq(r, ref, symACGT, 1, 6, false)
			m := r.Range(4, L-6)
			n2 := fmt.Sprintf("q%dtwo", qi)
			sc.recs = append(sc.recs,
				samRec{name: n2, flag: 0, pos: 1, cigar: fmt.Sprintf("%dM", m), seq: t2[:m]},
				samRec{name: n2, flag: 2048, pos: m + 2, cigar: fmt.Sprintf("%dM", L-m-3), seq: t2[m+1 : L-2]})
			sc.tags["multi-record"] = true
			sc.tags["three-records-then-two"] = true
			continue
		}
		if len(recs) == 0 && L >= 12 && r.Chance(1, 10) {
			// a query in two pieces that reach both ends of the reference and leave a stretch in the middle uncovered; the
			// primary line (first in the file) is the right-hand piece
			a := r.Range(3, L/2-2)
			b := r.Range(L/2+1, L-3)
			recs = append(recs,
				samRec{name: name, flag: 0, pos: b + 1, cigar: fmt.Sprintf("%dH%dM", b, L-b), seq: tmpl[b:]},
				samRec{name: name, flag: 2048, pos: 1, cigar: fmt.Sprintf("%dM%dH", a, L-a), seq: tmpl[:a]})
			sc.tags["multi-record"] = true
			sc.tags["records-not-in-reference-order"] = true
			sc.tags["both-ends-covered-hole-in-the-middle"] = true
		}
		if len(recs) > 0 {
		} else if L >= 10 && (r.Chance(1, 5) || (genSamOverlapOften && r.Bool())) {
			// one alignment cut into overlapping, agreeing records (each insertion carried by exactly one of them)
			st := r.Range(0, L/3)
			if r.Bool() {
				st = 0
			}
			cig, seq := randCigar(r, ref, tmpl, st, r.Range(6, L-st), cigarOpts{maxIns: maxIns})
			force := -1
			if maxIns >= 2 && L-st >= 9 && (r.Chance(1, 3) || (genSamOverlapOften && r.Bool())) {
				// a short and a long insertion, the short one right before the end of the first piece
				avail := L - st
				a := r.Range(3, avail-5)
				b := r.Range(2, avail-a-2)
				c := avail - a - b
				if c > 8 {
					c = r.Range(1, 8)
				}
				kLong := r.Range(2, 4)
				kShort := r.Range(1, kLong-1)
				k1, k2 := kShort, kLong
				force = st + a
				if r.Chance(1, 3) {
					k1, k2 = kLong, kShort
					force = st + a + b
				}
				cig = fmt.Sprintf("%dM%dI%dM%dI%dM", a, k1, b, k2, c)
				seq = tmpl[st:st+a] + randSeq(r, k1, symACGT, false) + tmpl[st+a:st+a+b] + randSeq(r, k2, symACGT, false) + tmpl[st+a+b:st+a+b+c]
			}
			if seq != "*" {
				recs = splitOverlap(r, cig, seq, st, force)
				for k := range recs {
					recs[k].name = name
				}
			}
			if len(recs) > 1 {
				sc.tags["multi-record"] = true
				sc.tags["overlap-agree"] = true
			}
		}
		if len(recs) > 0 {
		} else if disjoint || r.Bool() {
			// consecutive disjoint reference intervals
			cursor := r.Range(0, L/3)
			if r.Chance(1, 4) {
				cursor = 0 // alignments that start at reference base 1
			}
			for k := 0; k < nrec && cursor < L; k++ {
				span := r.Range(1, L-cursor)
				if nrec > 1 && span > (L-cursor)/2+1 {
					span = r.Range(1, (L-cursor)/2+1)
				}
				cig, seq := randCigar(r, ref, tmpl, cursor, span, cigarOpts{maxIns: maxIns, noTrailIn: disjoint})
				fl := 0
				if k > 0 {
					fl = 2048
				}
				if r.Chance(1, 4) {
					fl += 16
				}
				recs = append(recs, samRec{name: name, flag: fl, pos: cursor + 1, cigar: cig, seq: seq})
				cursor += span + r.Range(1, 6)
			}
			if len(recs) > 1 {
				sc.tags["multi-record"] = true
				if r.Chance(1, 3) {
					// the lines of a query come in the aligner's order (primary first), not in reference order: the
					// primary may be the right-hand piece
					i := r.Range(1, len(recs)-1)
					recs[0], recs[i] = recs[i], recs[0]
					recs[0].flag, recs[i].flag = recs[0].flag&^2048, recs[i].flag|2048
					sc.tags["records-not-in-reference-order"] = true
				}
			}
		} else {
			// overlapping records: agreeing (same template) or conflicting (independent templates)
			conflict := r.Bool()
			for k := 0; k < nrec; k++ {
				start := r.Range(0, L-1)
				span := r.Range(1, L-start)
				t := tmpl
				if conflict && k > 0 {
					t = mutateSeq(r, ref, symACGT, 1, 3, false)
				}
				cig, seq := randCigar(r, ref, t, start, span, cigarOpts{maxIns: maxIns})
				fl := 0
				if k > 0 {
					fl = 2048
				}
				recs = append(recs, samRec{name: name, flag: fl, pos: start + 1, cigar: cig, seq: seq})
			}
			if len(recs) > 1 {
				sc.tags["overlapping"] = true
				if conflict {
					sc.tags["conflicting"] = true
				}
			}
		}
		// a record that aligns no base at all (only D / N): the flank rule's corner case
		if r.Chance(1, 12) {
			st := r.Range(0, L-1)
			recs = []samRec{{name: name, flag: 0, pos: st + 1, cigar: fmt.Sprintf("%d%s", r.Range(1, L-st), r.PickStr([]string{"D", "N"})), seq: "*"}}
			sc.tags["no-aligned-base"] = true
		}
		// interleave records that must be ignored
		for k := 0; k < len(recs); k++ {
			sc.recs = append(sc.recs, recs[k])
			if r.Chance(1, 5) {
				fl := r.PickInt([]int{4, 256, 272, 260, 4 + 2048})
				nm := name
				if r.Bool() {
					nm = fmt.Sprintf("skip%d", r.Intn(99))
				}
				st := r.Range(0, L-1)
				cig, seq := randCigar(r, ref, ref, st, r.Range(1, L-st), cigarOpts{maxIns: 1})
				sc.recs = append(sc.recs, samRec{name: nm, flag: fl, pos: st + 1, cigar: cig, seq: seq})
				sc.tags["skipped-records"] = true
			}
		}
	}
	return sc
}

func (sc samCase) fill(c *Case) {
	var ps []string
	for _, r := range sc.recs {
		ps = append(ps, r.proto())
	}
	c.Set("ref", sc.ref).Set("rname", sc.rname).SetInt("reflen", len(sc.ref)).Set("recs", strings.Join(ps, ";"))
	for t := range sc.tags {
		c.Tag(t)
	}
	for _, r := range sc.recs {
		if strings.ContainsAny(r.cigar, "IDNSHP=X") {
			c.NonTrv = true
		}
	}
}

func caseSam(c *Case) (string, []samRec) {
	var recs []samRec
	for _, p := range strings.Split(c.Get("recs"), ";") {
		f := strings.Split(p, "~")
		if len(f) == 5 {
			recs = append(recs, samRec{name: f[0], flag: atoi(f[1]), pos: atoi(f[2]), cigar: f[3], seq: f[4]})
		}
	}
	txt := samText(c.Get("rname"), atoi(c.Get("reflen")), recs, true)
	if len(txt)%5 == 0 { // one file in five has no newline after its last record
		txt = strings.TrimSuffix(txt, "\n")
	}
	return txt, recs
}

// blockNames: query names in output order (as the model's grouping)
func blockNames(recs []samRec) []string {
	var names []string
	prev := ""
	started := false
	for _, r := range recs {
		if r.flag&4 != 0 || r.flag&256 != 0 {
			continue
		}
		if !started || r.name != prev {
			names = append(names, r.name)
		}
		prev = r.name
		started = true
	}
	return names
}

func randWindow(r *RNG, L int) (int, int) {
	switch r.Intn(6) {
	case 4, 5: // a window that names the whole reference: still a cut in reference coordinates (flanking insertions go)
		w := [][2]int{{1, -1}, {-1, L}, {1, L}}[r.Intn(3)]
		return w[0], w[1]
	case 0:
		return r.Range(1, L), -1
	case 1:
		return -1, r.Range(1, L)
	default:
		s := r.Range(1, L)
		return s, r.Range(s, L)
	}
}

// manySam: m short single-record queries on a short reference (for the many-records-jitter cases: far more records
// in flight than any fixed-size reorder window)
func manySam(r *RNG, m int) samCase {
	L := r.Range(10, 30)
	ref := randSeq(r, L, symACGT, false)
	sc := samCase{ref: ref, rname: "ref" + fmt.Sprint(r.Intn(9)), tags: map[string]bool{}}
	for i := 0; i < m; i++ {
		st := r.Range(0, L-2)
		n := r.Range(1, L-st)
		tmpl := mutateSeq(r, ref, symACGT, 1, 6, false)
		sc.recs = append(sc.recs, samRec{name: fmt.Sprintf("q%03d", i), flag: 0, pos: st + 1, cigar: fmt.Sprintf("%dM", n), seq: tmpl[st : st+n]})
	}
	return sc
}

func tomaGen(r *RNG, id string, windows bool) *Case {
	c := NewCase("TOMA", id)
	sc := genSam(r, false, 3)
	if m := manyRecords(r, c, 25); m > 0 {
		sc = manySam(r, m)
	}
	if !windows {
		splitBlocks(r, &sc)
	}
	sc.fill(c)
	start, end := -1, -1
	if windows || r.Chance(1, 4) {
		start, end = randWindow(r, len(sc.ref))
		c.Tag("window")
	}
	c.SetInt("start", start).SetInt("end", end).SetBool("pad", r.Bool())
	c.SetInt("wrap", r.PickInt([]int{-1, -1, 1, 7, 60, len(sc.ref), len(sc.ref) + 2}))
	c.SetInt("threads", r.PickInt([]int{1, 2, 4, 16}))
	if c.Get("jit") != "" {
		c.SetInt("threads", r.PickInt([]int{4, 8, 16}))
	}
	maybeCLI(r, c, 6)
	return c
}

func execToma(r *RNG, c *Case) {
	txt, _ := caseSam(c)
	if isCLI(c) {
		args := []string{"sam", "toMultiAlign", "-s", "{dir}/a.sam", "-t", c.Get("threads")}
		for _, kv := range [][2]string{{"wrap", "--wrap"}, {"start", "--start"}, {"end", "--end"}} {
			if atoi(c.Get(kv[0])) != -1 {
				args = append(args, kv[1], c.Get(kv[0]))
			}
		}
		if c.Get("pad") == "1" {
			args = append(args, "--pad")
		}
		c.Set("go", goField(viaCLI(map[string]string{"a.sam": txt}, "", args, nil)))
		return
	}
	res := safeRun(30*time.Second, func() (string, error) {
		var out bytes.Buffer
		err := sam.ToMultiAlign(textReader(c.ID, txt), &out, atoi(c.Get("wrap")), atoi(c.Get("start")), atoi(c.Get("end")), c.Get("pad") == "1", atoi(c.Get("threads")))
		return out.String(), err
	})
	c.Set("go", goField(res))
}

// splitBlocks: one case in six is a file in which a query's records are not contiguous (a coordinate-sorted file): a
// further record of the first query follows the records of the other queries. gofasta treats the two runs as two
// blocks of the same name; toMultiAlign writes two records, toPairAlign two pairs (to a directory: the same file twice,
// the later block in input order stays)
func splitBlocks(r *RNG, sc *samCase) {
	L := len(sc.ref)
	if len(sc.recs) < 2 || L < 12 || !r.Chance(1, 6) {
		return
	}
	first := sc.recs[0].name
	if sc.recs[len(sc.recs)-1].name == first {
		return
	}
	k := r.Range(4, L/2)
	pos := r.Range(1, L-k+1)
	seq := mutateSeq(r, strings.ToUpper(sc.ref[pos-1:pos-1+k]), symACGT, 1, 3, false)
	sc.recs = append(sc.recs, samRec{name: first, flag: 2048, pos: pos, cigar: fmt.Sprintf("%dM", k), seq: seq})
	sc.tags["query-records-not-contiguous"] = true
}

func topaGen(r *RNG, id string, windows bool) *Case {
	c := NewCase("TOPA", id)
	sc := genSam(r, true, r.PickInt([]int{0, 2, 5}))
	if m := manyRecords(r, c, 25); m > 0 {
		sc = manySam(r, m)
	}
	// two reads in a row whose reference rows are equally wide but gapped at different places (one insertion of the
	// same length each): anything a worker keeps from the first pair and keys by width is wrong for the second
	L := len(sc.ref)
	twinAt := [2]int{-1, -1}
	if L >= 12 && r.Chance(1, 4) {
		k := r.Range(1, 3)
		a := r.Range(1, L/2-1)
		b := r.Range(L/2+1, L-1)
		for i, at := range []int{a, b} {
			tmpl := mutateSeq(r, sc.ref, symACGT, 1, 10, false)
			seq := tmpl[:at] + randSeq(r, k, symACGT, false) + tmpl[at:]
			sc.recs = append(sc.recs, samRec{name: fmt.Sprintf("tw%d", i), flag: 0, pos: 1, cigar: fmt.Sprintf("%dM%dI%dM", at, k, L-at), seq: seq})
		}
		twinAt = [2]int{a, b}
		sc.tags["twin-insertions"] = true
	}
	if r.Chance(1, 8) {
		sc.ref = mutateSeq(r, sc.ref, "NRY", 1, 15, true) // the reference file may carry IUPAC codes and lower case
	}
	if !windows {
		splitBlocks(r, &sc)
	}
	sc.fill(c)
	start, end := -1, -1
	if windows || r.Chance(1, 4) || (twinAt[0] > 0 && r.Bool()) {
		start, end = randWindow(r, len(sc.ref))
		if twinAt[0] > 0 && r.Chance(2, 3) { // a bound between the two insertion sites
			mid := r.Range(twinAt[0]+1, twinAt[1])
			if r.Bool() {
				start, end = mid, -1
				if r.Bool() {
					end = r.Range(mid, L)
				}
			} else {
				start, end = -1, mid
				if r.Bool() {
					start = r.Range(1, mid)
				}
			}
		}
		c.Tag("window")
	}
	c.SetInt("start", start).SetInt("end", end)
	c.SetBool("omitref", r.Chance(1, 3)).SetBool("omitins", r.Chance(1, 3))
	c.SetInt("wrap", r.PickInt([]int{-1, -1, 1, 7, 60}))
	c.SetInt("threads", r.PickInt([]int{1, 2, 4, 16}))
	if c.Get("jit") != "" {
		c.SetInt("threads", r.PickInt([]int{4, 8, 16}))
	}
	if strings.Contains(c.Get("recs"), "I") {
		c.Tag("insertions")
	}
	maybeCLI(r, c, 6)
	return c
}

var tmpCounter int

func execTopa(r *RNG, c *Case) {
	txt, recs := caseSam(c)
	tmpCounter++
	dir := filepath.Join(opts.tmp, fmt.Sprintf("topa-%d-%d", os.Getpid(), tmpCounter))
	defer os.RemoveAll(dir)
	refTxt := renderFasta([]string{c.Get("rname") + " reference"}, []string{c.Get("ref")}, randLayout(r))
	if isCLI(c) {
		toStdout := idSeed(c.ID)%2 == 0
		outArg := "{dir}/out"
		if toStdout {
			outArg = "stdout"
		}
		args := []string{"sam", "toPairAlign", "-s", "{dir}/a.sam", "-r", "{dir}/r.fa", "-o", outArg, "-t", c.Get("threads")}
		for _, kv := range [][2]string{{"wrap", "--wrap"}, {"start", "--start"}, {"end", "--end"}} {
			if atoi(c.Get(kv[0])) != -1 {
				args = append(args, kv[1], c.Get(kv[0]))
			}
		}
		if c.Get("omitref") == "1" {
			args = append(args, "--omit-reference")
		}
		if c.Get("omitins") == "1" {
			args = append(args, "--skip-insertions")
		}
		if toStdout {
			// all pairs on standard output, in input order: cut the stream back into one text per query
			res := viaCLINoFile(map[string]string{"a.sam": txt, "r.fa": refTxt}, args)
			if res.status == "ok" {
				per := 2
				if c.Get("omitref") == "1" {
					per = 1
				}
				var groups []string
				var cur strings.Builder
				nrec := 0
				lastID := ""
				flush := func() {
					if cur.Len() > 0 {
						groups = append(groups, lastID+"\n"+cur.String())
						cur.Reset()
					}
				}
				for _, line := range strings.SplitAfter(res.out, "\n") {
					if strings.HasPrefix(line, ">") {
						if nrec == per {
							flush()
							nrec = 0
						}
						nrec++
						lastID = strings.Fields(strings.TrimPrefix(strings.TrimSpace(line), ">") + " x")[0]
					}
					cur.WriteString(line)
				}
				flush()
				res.out = strings.Join(groups, sepFS)
			}
			c.Set("go", goField(res))
			c.Tag("topa-stdout")
			return
		}
		c.Set("dirmode", "1")
		c.Set("go", goField(viaCLI(map[string]string{"a.sam": txt, "r.fa": refTxt}, "", args, func(d string) (string, error) {
			var parts []string
			for _, n := range blockNames(recs) {
				b, err := os.ReadFile(filepath.Join(d, "out", n+".fasta"))
				if err != nil {
					return "", err
				}
				parts = append(parts, n+"\n"+string(b))
			}
			return strings.Join(parts, sepFS), nil
		})))
		return
	}
	if idSeed(c.ID)%4 == 0 {
		// the output directory is being re-used: every query already has a (longer) file from an earlier run
		os.MkdirAll(dir, 0755)
		for _, n := range blockNames(recs) {
			os.WriteFile(filepath.Join(dir, n+".fasta"), []byte(">stale\n"+strings.Repeat("STALESTALE\n", 60)), 0644)
		}
	}
	c.Set("dirmode", "1")
	res := safeRun(30*time.Second, func() (string, error) {
		err := sam.ToPairAlign(textReader(c.ID, txt), strings.NewReader(refTxt), dir, atoi(c.Get("wrap")), atoi(c.Get("start")), atoi(c.Get("end")),
			c.Get("omitref") == "1", c.Get("omitins") == "1", atoi(c.Get("threads")))
		if err != nil {
			return "", err
		}
		var parts []string
		for _, n := range blockNames(recs) {
			b, err := os.ReadFile(filepath.Join(dir, n+".fasta"))
			if err != nil {
				return "", err
			}
			parts = append(parts, n+"\n"+string(b))
		}
		return strings.Join(parts, sepFS), nil
	})
	c.Set("go", goField(res))
}

// runCLI runs the gofasta binary
// runCLI runs the binary. A run that could not be started, or that was ended by a signal (exit code -1 without a timeout:
// the machine ran out of processes or memory while several checks shared it), says nothing about gofasta and is repeated,
// up to three times, after a pause; an exit status the program itself chose is never retried.
func runCLI(timeout time.Duration, stdin string, args ...string) (stdout string, stderr string, code int, timedOut bool) {
	for attempt := 0; ; attempt++ {
		stdout, stderr, code, timedOut = runCLIOnce(timeout, stdin, args...)
		if code != -1 || timedOut || attempt == 2 {
			return
		}
		time.Sleep(time.Duration(200*(attempt+1)) * time.Millisecond)
	}
}

func runCLIOnce(timeout time.Duration, stdin string, args ...string) (stdout string, stderr string, code int, timedOut bool) {
	cmd := exec.Command(opts.gobin, args...)
	cmd.Stdin = strings.NewReader(stdin)
	var o, e bytes.Buffer
	cmd.Stdout = &o
	cmd.Stderr = &e
	if err := cmd.Start(); err != nil {
		return "", err.Error(), -1, false
	}
	done := make(chan error, 1)
	go func() { done <- cmd.Wait() }()
	select {
	case err := <-done:
		code := 0
		if err != nil {
			code = 1
			if ee, ok := err.(*exec.ExitError); ok {
				code = ee.ExitCode()
			}
		}
		return o.String(), e.String(), code, false
	case <-time.After(timeout):
		cmd.Process.Kill()
		<-done
		return o.String(), e.String(), -1, true
	}
}

func init() {
	gens["C01"] = func(r *RNG, id string) *Case { return tomaGen(r, id, false) }
	execs["C01"] = execToma
	execs["TOMA"] = execToma
	gens["C02"] = func(r *RNG, id string) *Case { return topaGen(r, id, false) }
	execs["C02"] = execTopa
	execs["TOPA"] = execTopa
}

// runCLIDevFull runs the binary with stdout connected to /dev/full
// runCLISlow: the binary's standard output is a pipe whose reader only starts after `delay` (a pager, a compressor, a
// parent that waits first): everything the command wrote must still arrive, and the exit status must say so
func runCLISlow(timeout, delay time.Duration, args ...string) (stdout string, code int, timedOut bool) {
	cmd := exec.Command(opts.gobin, args...)
	cmd.Stdin = strings.NewReader("")
	cmd.Stderr = io.Discard
	pipe, err := cmd.StdoutPipe()
	if err != nil {
		return "", -1, false
	}
	if err := cmd.Start(); err != nil {
		return "", -1, false
	}
	done := make(chan struct{})
	var out []byte
	go func() {
		time.Sleep(delay)
		buf := make([]byte, 4096)
		for {
			n, e := pipe.Read(buf)
			out = append(out, buf[:n]...)
			if e != nil {
				break
			}
			time.Sleep(2 * time.Millisecond)
		}
		close(done)
	}()
	timer := time.AfterFunc(timeout, func() { timedOut = true; cmd.Process.Kill() })
	<-done
	werr := cmd.Wait()
	timer.Stop()
	code = 0
	if werr != nil {
		code = 1
		if ee, ok := werr.(*exec.ExitError); ok {
			code = ee.ExitCode()
		}
	}
	return string(out), code, timedOut
}

func runCLIDevFull(timeout time.Duration, args ...string) (code int, timedOut bool) {
	cmd := exec.Command(opts.gobin, args...)
	full, err := os.OpenFile("/dev/full", os.O_WRONLY, 0)
	if err != nil {
		return -2, false
	}
	defer full.Close()
	cmd.Stdout = full
	var e bytes.Buffer
	cmd.Stderr = &e
	if err := cmd.Start(); err != nil {
		return -1, false
	}
	done := make(chan error, 1)
	go func() { done <- cmd.Wait() }()
	select {
	case err := <-done:
		if err != nil {
			if ee, ok := err.(*exec.ExitError); ok {
				return ee.ExitCode(), false
			}
			return 1, false
		}
		return 0, false
	case <-time.After(timeout):
		cmd.Process.Kill()
		<-done
		return -1, true
	}
}
