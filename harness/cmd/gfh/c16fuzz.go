package main

import (
	"fmt"
	"os"
	"os/exec"
	"path/filepath"
	"sort"
	"strconv"
	"strings"
)

// Stream C16fuzz (thorough tier): `go test -fuzz FuzzReaders` for o.n seconds in the per-run copy of this module,
// then every input the fuzzer kept (and any crasher it wrote) becomes a C16 case: the five real readers are run on
// it once more and the Lean model / specification judge the result like any other C16 case.
func init() {
	streams["C16fuzz"] = c16FuzzStream
}

// parseFuzzFile reads Go's corpus file format ("go test fuzz v1", one Go literal per line)
func parseFuzzFile(path string) (data string, hard bool, ok bool) {
	b, err := os.ReadFile(path)
	if err != nil {
		return "", false, false
	}
	lines := strings.Split(strings.TrimSpace(string(b)), "\n")
	if len(lines) < 3 || !strings.HasPrefix(lines[0], "go test fuzz v1") {
		return "", false, false
	}
	l := strings.TrimSpace(lines[1])
	if !strings.HasPrefix(l, "[]byte(") || !strings.HasSuffix(l, ")") {
		return "", false, false
	}
	s, err := strconv.Unquote(l[len("[]byte(") : len(l)-1])
	if err != nil {
		return "", false, false
	}
	return s, strings.Contains(lines[2], "true"), true
}

func c16FuzzStream(o *runOpts, s *Sink) {
	hdir := filepath.Join(o.tmp, "harness")
	if _, err := os.Stat(filepath.Join(hdir, "go.mod")); err != nil {
		fmt.Fprintln(os.Stderr, "C16fuzz: no harness sources under", hdir)
		os.Exit(2)
	}
	cache := filepath.Join(o.tmp, fmt.Sprintf("fuzzcache-%d", o.seed))
	os.MkdirAll(cache, 0755)
	secs := o.n
	if secs <= 0 {
		secs = 10
	}
	cmd := exec.Command("go", "test", "-tags", "verif", "-run", "^$", "-fuzz", "^FuzzReaders$", "-fuzztime", fmt.Sprintf("%ds", secs), "./cmd/gfh")
	cmd.Dir = hdir
	cmd.Env = append(os.Environ(), "GOCACHE="+cache)
	out, err := cmd.CombinedOutput()
	tail := string(out)
	if len(tail) > 600 {
		tail = tail[len(tail)-600:]
	}
	fmt.Fprintln(os.Stderr, "go test -fuzz:", strings.ReplaceAll(tail, "\n", " | "))
	var files []string
	filepath.Walk(filepath.Join(cache, "fuzz"), func(p string, info os.FileInfo, e error) error {
		if e == nil && !info.IsDir() {
			files = append(files, p)
		}
		return nil
	})
	// a crasher is written into the package's testdata directory
	filepath.Walk(filepath.Join(hdir, "cmd", "gfh", "testdata", "fuzz"), func(p string, info os.FileInfo, e error) error {
		if e == nil && !info.IsDir() {
			files = append(files, p)
		}
		return nil
	})
	sort.Strings(files)
	if err != nil && len(files) == 0 {
		fmt.Fprintln(os.Stderr, "C16fuzz: go test failed and left no corpus:", err)
		os.Exit(2)
	}
	k := 0
	for _, f := range files {
		text, hard, ok := parseFuzzFile(f)
		if !ok {
			continue
		}
		ascii := true
		for i := 0; i < len(text); i++ {
			if text[i] >= 0x80 || text[i] == 0 || text[i] == '\x1f' || text[i] == '\x1e' || text[i] == '\x1c' {
				ascii = false // the line protocol carries text; such inputs stay with the fuzz target's own totality check
				break
			}
		}
		if !ascii || len(text) > 4096 {
			continue
		}
		c := NewCase("C16", fmt.Sprintf("C16fuzz-%d-%d", o.seed, k))
		c.Set("kind", "mal").SetBool("hard", hard).Set("refid", "a").Set("text", text)
		c.Tag("go-fuzz-corpus")
		if strings.Contains(f, "testdata") {
			c.Tag("go-fuzz-crasher")
		}
		c.NonTrv = true
		execC16(NewRNG(idSeed(c.ID)), c)
		s.Emit(c)
		k++
	}
}
