package main

import (
	"bytes"
	"fmt"
	"sort"
	"strings"
	"time"

	"github.com/virus-evolution/gofasta/pkg/variants"
)

// ---------------------------------------------------------------------------------------------
// gene models and their two renderings

type gene struct {
	name       string
	strand     int      // +1 / -1
	segs       [][2]int // ascending genomic order, 1-based inclusive
	codonStart int      // 1..3 (bases skipped at the 5' end = codonStart-1)
	gbForm     string   // range | join | comp | compjoin | joincomp
	// GFF-only shapes
	gffNamed bool // has a Name attribute
	gffID    bool // has an ID attribute
	gffType  string
	idSuffix string // distinguishes the IDs of features that share a name
}

const stdTCAG = "FFLLSSSSYY**CC*WLLLLPPPPHHQQRRRRIIIMTTTTNNKKSSRRVVVVAAAADDEEGGGG"

func tcagIdx(b byte) int {
	switch b {
	case 'T':
		return 0
	case 'C':
		return 1
	case 'A':
		return 2
	}
	return 3
}

func compBase(b byte) byte {
	switch b {
	case 'A':
		return 'T'
	case 'T':
		return 'A'
	case 'C':
		return 'G'
	case 'G':
		return 'C'
	case 'R':
		return 'Y'
	case 'Y':
		return 'R'
	case 'K':
		return 'M'
	case 'M':
		return 'K'
	case 'B':
		return 'V'
	case 'V':
		return 'B'
	case 'D':
		return 'H'
	case 'H':
		return 'D'
	}
	return b
}

var iupacBases = map[byte]string{'A': "A", 'C': "C", 'G': "G", 'T': "T", 'R': "AG", 'Y': "CT", 'S': "CG", 'W': "AT", 'K': "GT", 'M': "AC",
	'B': "CGT", 'D': "AGT", 'H': "ACT", 'V': "ACG", 'N': "ACGT"}

// codonAA: the residue every expansion of an IUPAC codon gives under NCBI table 1, or '?' when they differ
func codonAA(c [3]byte) byte {
	aa := byte(0)
	for _, x := range []byte(iupacBases[c[0]]) {
		for _, y := range []byte(iupacBases[c[1]]) {
			for _, z := range []byte(iupacBases[c[2]]) {
				a := stdTCAG[tcagIdx(x)*16+tcagIdx(y)*4+tcagIdx(z)]
				if aa != 0 && a != aa {
					return '?'
				}
				aa = a
			}
		}
	}
	if aa == 0 {
		return '?'
	}
	return aa
}

// ambiguateReference replaces some reference bases by IUPAC codes that contain them, keeping every gene's translation
// (every codon must still translate, to the same residue): a reference with ambiguity codes inside coding features
func ambiguateReference(r *RNG, genome string, genes []gene) string {
	g := []byte(genome)
	want := make([]string, len(genes))
	for i, x := range genes {
		want[i] = x.translation(genome)
	}
	for k := 0; k < len(g)/3+1; k++ {
		p := r.Intn(len(g))
		old := g[p]
		var opts []byte
		for code, set := range iupacBases {
			if len(set) > 1 && strings.IndexByte(set, old) >= 0 {
				opts = append(opts, code)
			}
		}
		if len(opts) == 0 {
			continue
		}
		sort.Slice(opts, func(i, j int) bool { return opts[i] < opts[j] })
		g[p] = opts[r.Intn(len(opts))]
		if compBase(g[p]) == g[p] && r.Chance(3, 4) { // prefer the codes whose complement is another code (R/Y, K/M, B/V, D/H)
			g[p] = opts[r.Intn(len(opts))]
		}
		for i, x := range genes {
			if x.translation(string(g)) != want[i] {
				g[p] = old
				break
			}
		}
	}
	return string(g)
}

// codingPositions in coding order (before codon_start is applied)
func (g gene) codingPositions() []int {
	var p []int
	for _, s := range g.segs {
		for i := s[0]; i <= s[1]; i++ {
			p = append(p, i)
		}
	}
	if g.strand < 0 {
		for i, j := 0, len(p)-1; i < j; i, j = i+1, j-1 {
			p[i], p[j] = p[j], p[i]
		}
	}
	return p
}

// translate the gene on an A/C/G/T genome with an independent copy of NCBI table 1
func (g gene) translation(genome string) string {
	p := g.codingPositions()[g.codonStart-1:]
	var aa []byte
	for i := 0; i+2 < len(p); i += 3 {
		var c [3]byte
		for k := 0; k < 3; k++ {
			c[k] = genome[p[i+k]-1]
			if g.strand < 0 {
				c[k] = compBase(c[k])
			}
		}
		aa = append(aa, codonAA(c))
	}
	return string(aa)
}

// randGene draws a gene inside 1..L; total coding length after codon_start is a multiple of 3
func randGene(r *RNG, L int, idx int, allowPhase bool) (gene, bool) {
	g := gene{name: fmt.Sprintf("g%d", idx), strand: 1, codonStart: 1, gffNamed: true, gffID: true, gffType: "CDS"}
	if r.Chance(1, 3) {
		g.strand = -1
	}
	if allowPhase && r.Chance(1, 3) {
		g.codonStart = r.Range(2, 3)
	}
	nseg := 1
	if r.Chance(2, 5) {
		nseg = r.Range(2, 3)
	}
	// choose segment boundaries
	for try := 0; try < 30; try++ {
		start := r.Range(1, L-8)
		var segs [][2]int
		pos := start
		total := 0
		ok := true
		for s := 0; s < nseg; s++ {
			ln := r.Range(2, 14)
			if pos+ln-1 > L {
				ok = false
				break
			}
			segs = append(segs, [2]int{pos, pos + ln - 1})
			total += ln
			pos = pos + ln + r.Range(0, 6) // gap between segments (0 = abutting, e.g. ribosomal slippage style handled below)
			if r.Chance(1, 8) && pos > 1 {
				pos-- // overlapping segments by one base, as in join(266..13468,13468..21555)
			}
		}
		if !ok {
			continue
		}
		// fix the total length: extend or shrink the last segment
		need := (3 - (total-(g.codonStart-1))%3) % 3
		last := &segs[len(segs)-1]
		if last[1]+need <= L {
			last[1] += need
			total += need
		} else if last[1]-last[0]+1 > (3-need)%3+1 {
			last[1] -= (3 - need) % 3
			total -= (3 - need) % 3
		} else {
			continue
		}
		if (total-(g.codonStart-1))%3 != 0 || total-(g.codonStart-1) < 6 {
			continue
		}
		g.segs = segs
		switch {
		case g.strand > 0 && len(segs) == 1:
			g.gbForm = "range"
		case g.strand > 0:
			g.gbForm = "join"
		case len(segs) == 1:
			g.gbForm = "comp"
		case r.Bool():
			g.gbForm = "compjoin"
		default:
			g.gbForm = "joincomp"
		}
		return g, true
	}
	return g, false
}

func (g gene) gbLocation() string {
	seg := func(s [2]int) string { return fmt.Sprintf("%d..%d", s[0], s[1]) }
	var parts []string
	switch g.gbForm {
	case "range":
		return seg(g.segs[0])
	case "join":
		for _, s := range g.segs {
			parts = append(parts, seg(s))
		}
		return "join(" + strings.Join(parts, ",") + ")"
	case "comp":
		return "complement(" + seg(g.segs[0]) + ")"
	case "compjoin":
		for _, s := range g.segs {
			parts = append(parts, seg(s))
		}
		return "complement(join(" + strings.Join(parts, ",") + "))"
	default: // joincomp: transcription order
		for i := len(g.segs) - 1; i >= 0; i-- {
			parts = append(parts, "complement("+seg(g.segs[i])+")")
		}
		return "join(" + strings.Join(parts, ",") + ")"
	}
}

// protocol form of the location: segments in the order written
func (g gene) protoSegs() string {
	var parts []string
	if g.gbForm == "joincomp" {
		for i := len(g.segs) - 1; i >= 0; i-- {
			parts = append(parts, fmt.Sprintf("%d-%d", g.segs[i][0], g.segs[i][1]))
		}
	} else {
		for _, s := range g.segs {
			parts = append(parts, fmt.Sprintf("%d-%d", s[0], s[1]))
		}
	}
	return strings.Join(parts, "+")
}

func renderGenbank(genes []gene, genome string) (text string, proto string) {
	var b strings.Builder
	fmt.Fprintf(&b, "LOCUS       TESTGENOME %d bp ss-RNA     linear   VRL 01-JAN-2020\nDEFINITION  synthetic.\nFEATURES             Location/Qualifiers\n", len(genome))
	fmt.Fprintf(&b, "     source          1..%d\n                     /organism=\"synthetic construct\"\n", len(genome))
	var pf []string
	for _, g := range genes {
		tr := g.translation(genome)
		tr = strings.TrimSuffix(tr, "*")
		fmt.Fprintf(&b, "     gene            %s\n                     /gene=\"%s\"\n", g.gbLocation(), g.name)
		fmt.Fprintf(&b, "     CDS             %s\n                     /gene=\"%s\"\n                     /codon_start=%d\n", g.gbLocation(), g.name, g.codonStart)
		// wrap the translation like a real flat file: the value continues on lines indented to column 22
		wrapAt := 44        // 58 columns of qualifier text, 14 of them taken by /translation="
		if len(tr)%2 == 0 { // short genes never reach column 79: wrap every other one early so that continuation lines occur
			wrapAt = 2 + len(tr)%5
		}
		val := tr + "\""
		first := true
		for len(val) > 0 {
			w := wrapAt
			if w > len(val) {
				w = len(val)
			}
			if first {
				fmt.Fprintf(&b, "                     /translation=\"%s\n", val[:w])
				first = false
			} else {
				fmt.Fprintf(&b, "                     %s\n", val[:w])
			}
			val = val[w:]
		}
		if len(tr)%3 == 1 {
			// a hard-wrapped /note whose continuation line starts with '/' and holds '=' (a URL cut by the 80-column
			// wrapping): still the note's text, not a new qualifier; the next feature must be read as usual
			fmt.Fprintf(&b, "                     /note=\"curated, see https://db.example.org\n                     /genes?name=%s\"\n", g.name)
		}
		pf = append(pf, strings.Join([]string{g.name, g.gbForm, g.protoSegs(), fmt.Sprint(g.codonStart), tr}, "~"))
	}
	b.WriteString("ORIGIN      \n")
	low := strings.ToLower(genome)
	for i := 0; i < len(low); i += 60 {
		fmt.Fprintf(&b, "%9d", i+1)
		for j := i; j < i+60 && j < len(low); j += 10 {
			e := j + 10
			if e > len(low) {
				e = len(low)
			}
			b.WriteString(" " + low[j:e])
		}
		b.WriteString("\n")
	}
	b.WriteString("//\n")
	txt := b.String()
	if len(genome)%5 == 1 { // one file in five comes from a Windows machine
		txt = strings.ReplaceAll(txt, "\n", "\r\n")
	}
	return txt, strings.Join(pf, ";")
}

type gffRow struct {
	typ        string
	start, end int
	strand     string
	phase      string
	id, name   string // "." = absent
}

// gffRowsOf: GFF3-conformant rows of a gene (ascending order; phase = bases to the next codon start)
func gffRowsOf(g gene) []gffRow {
	strand := "+"
	if g.strand < 0 {
		strand = "-"
	}
	rows := make([]gffRow, len(g.segs))
	order := make([]int, len(g.segs)) // 5' -> 3'
	for i := range order {
		if g.strand > 0 {
			order[i] = i
		} else {
			order[i] = len(g.segs) - 1 - i
		}
	}
	consumed := -(g.codonStart - 1) // coding bases seen so far, counted from the first codon start
	for _, si := range order {
		s := g.segs[si]
		ph := 0
		if consumed < 0 {
			ph = -consumed
		} else {
			ph = (3 - consumed%3) % 3
		}
		id, name := ".", "."
		if g.gffID {
			id = "cds-" + g.name + g.idSuffix
		}
		if g.gffNamed {
			name = g.name
		}
		phs := fmt.Sprint(ph)
		if g.gffType != "CDS" {
			phs = "."
		}
		rows[si] = gffRow{typ: g.gffType, start: s[0], end: s[1], strand: strand, phase: phs, id: id, name: name}
		consumed += s[1] - s[0] + 1
	}
	return rows
}

func renderGFF(rows []gffRow, genome string, withFasta, withRegion bool, refName string) (text string, proto string) {
	var b strings.Builder
	b.WriteString("##gff-version 3\n# a comment\n")
	if withRegion {
		fmt.Fprintf(&b, "##sequence-region %s 1 %d\n", refName, len(genome))
	}
	var pf []string
	fmt.Fprintf(&b, "%s\tverif\tregion\t1\t%d\t.\t+\t.\tID=region0;Name=whole\n", refName, len(genome))
	for _, r := range rows {
		var attrs []string
		if r.id != "." {
			attrs = append(attrs, "ID="+r.id)
		}
		attrs = append(attrs, "Parent=gene0")
		if r.name != "." {
			attrs = append(attrs, "Name="+r.name)
		}
		fmt.Fprintf(&b, "%s\tverif\t%s\t%d\t%d\t.\t%s\t%s\t%s\n", refName, r.typ, r.start, r.end, r.strand, r.phase, strings.Join(attrs, ";"))
		ph := r.phase
		if ph == "." {
			ph = "0"
		}
		pf = append(pf, strings.Join([]string{r.typ, fmt.Sprint(r.start), fmt.Sprint(r.end), r.strand, ph, r.id, r.name}, "~"))
	}
	if withFasta {
		b.WriteString("##FASTA\n>" + refName + "\n")
		for i := 0; i < len(genome); i += 70 {
			e := i + 70
			if e > len(genome) {
				e = len(genome)
			}
			b.WriteString(genome[i:e] + "\n")
		}
	}
	txt := b.String()
	if (len(genome)+len(rows))%5 == 2 { // one file in five comes from a Windows machine
		txt = strings.ReplaceAll(txt, "\n", "\r\n")
	}
	return txt, strings.Join(pf, ";")
}

// ---------------------------------------------------------------------------------------------
// alignments of queries to the genome

// set by a generator around a call of genVarCase: queries dense in IUPAC codes
var denseIUPAC bool

// sparseLong: set by genVarCase for a case at scale (a genome of several hundred bases under one long gene, many queries with one
// substitution each at consecutive positions, now and then a deletion of 64-200 bases)
var sparseLong bool

type msa struct {
	refRow string
	names  []string
	rows   []string
	hot    []int // reference positions that carry, or are likely to carry, more than one mutation in some query
}

// buildMSA: queries are mutated copies of the genome; insertion sites become reference-gap columns
func buildMSA(r *RNG, genome string, nq int, withIns bool, gapRich bool) msa {
	L := len(genome)
	type site struct{ after, length int }
	var sites []site
	if withIns {
		for k := 0; k < r.Range(0, 4); k++ {
			sites = append(sites, site{after: r.Range(0, L), length: r.Range(1, 4)})
		}
		if r.Chance(1, 4) {
			sites = append(sites, site{after: L, length: r.Range(1, 3)}) // abutting the end
		}
		if r.Chance(1, 6) {
			sites = append(sites, site{after: 0, length: r.Range(1, 2)}) // before the first base
		}
	}
	sort.Slice(sites, func(i, j int) bool { return sites[i].after < sites[j].after })
	// merge duplicates
	var ms []site
	for _, s := range sites {
		if len(ms) > 0 && ms[len(ms)-1].after == s.after {
			if s.length > ms[len(ms)-1].length {
				ms[len(ms)-1].length = s.length
			}
			continue
		}
		ms = append(ms, s)
	}
	sites = ms
	build := func(base []byte, insFor func(s site) string) string {
		var b strings.Builder
		si := 0
		for p := 0; p <= L; p++ {
			for si < len(sites) && sites[si].after == p {
				b.WriteString(insFor(sites[si]))
				si++
			}
			if p < L {
				b.WriteByte(base[p])
			}
		}
		return b.String()
	}
	sparseScan := r.Intn(L)
	m := msa{}
	m.refRow = build([]byte(genome), func(s site) string { return strings.Repeat("-", s.length) })
	m.names = randNames(r, nq, "")
	for i := 0; i < nq; i++ {
		q := []byte(genome)
		// substitutions
		rate := r.PickInt([]int{20, 10, 6})
		iupacIn := 5
		if denseIUPAC { // every second base replaced, mostly by an ambiguity code: every kind of codon gets translated
			rate, iupacIn = 2, 1
			if r.Chance(1, 4) {
				iupacIn = 2
			}
		}
		if sparseLong {
			rate = 1 << 30
			p := (sparseScan + i) % L
			q[p] = r.Pick(strings.ReplaceAll(symACGT, strings.ToUpper(string(genome[p])), ""))
			if r.Chance(1, 3) {
				p = r.Intn(L)
				q[p] = r.Pick(strings.ReplaceAll(symACGT, strings.ToUpper(string(genome[p])), ""))
			}
		}
		for p := range q {
			if r.Chance(1, rate) {
				if r.Chance(1, iupacIn) {
					q[p] = r.Pick("RYSWKMBDHVN")
				} else {
					q[p] = r.Pick(symACGT)
				}
			}
		}
		// a substitution right before an insertion site: `ins:p:L` and `nuc:XpY` then share position p
		for _, st := range sites {
			if st.after >= 1 && st.after <= L && r.Chance(1, 2) {
				alt := r.Pick(symACGT)
				if alt != genome[st.after-1] && alt != genome[st.after-1]-32 && alt != genome[st.after-1]+32 {
					q[st.after-1] = alt
				}
			}
		}
		// deletions, possibly touching either end
		nd := r.Range(0, 2)
		if gapRich {
			nd = r.Range(1, 5)
		}
		if sparseLong {
			nd = 0
			if r.Chance(1, 3) {
				nd = 1
			}
		}
		for k := 0; k < nd; k++ {
			ln := r.Range(1, 5)
			if sparseLong {
				ln = r.PickInt([]int{63, 64, 65, 100, 128, 129, 200})
			}
			st := r.Range(0, L-1)
			if sparseLong {
				st = r.Range(1, L/2)
			}
			switch r.Intn(6) {
			case 0:
				st = 0
			case 1:
				st = L - ln
			}
			for p := st; p < st+ln && p < L; p++ {
				if p >= 0 {
					q[p] = '-'
				}
			}
		}
		row := build(q, func(s site) string {
			// this query carries all, part (right- or left-aligned inside the block), or none of the insertion
			switch r.Intn(5) {
			case 0:
				return randSeq(r, s.length, symACGT, false)
			case 1:
				k := r.Range(0, s.length)
				return strings.Repeat("-", s.length-k) + randSeq(r, k, symACGT, false)
			case 2:
				k := r.Range(0, s.length)
				return randSeq(r, k, symACGT, false) + strings.Repeat("-", s.length-k)
			default:
				return strings.Repeat("-", s.length)
			}
		})
		m.rows = append(m.rows, row)
	}
	for _, st := range sites {
		if st.after >= 1 && st.after <= L {
			m.hot = append(m.hot, st.after)
		}
	}
	return m
}

// ---------------------------------------------------------------------------------------------
// a VAR case: one run of variants.Variants

type varOpts struct {
	fmtWeights   [2]int // gb, gff
	withIns      bool
	gapRich      bool
	gffShapes    bool // unnamed parents with named children, rows without ID
	allowPhase   bool
	plusNames    bool // feature names may contain '+'
	window       bool
	agg          bool
	bothFormats  bool // only genes expressible in both formats
	maxGenes     int
	smallMutPool bool
	sameName     bool // now and then two features of one name with another feature between them, all over the same codons
	sameNameLoci bool // now and then a second feature of the same name at another locus holding a copy of the first one's bases
	ambRef       bool // now and then IUPAC codes in the reference, inside coding features too (translations unchanged)
}

func genVarCase(r *RNG, id string, o varOpts) *Case {
	c := NewCase("VAR", id)
	L := r.Range(30, 160)
	sparseLong = o.maxGenes > 0 && !o.smallMutPool && atScale(r, 15)
	defer func() { sparseLong = false }()
	if sparseLong {
		L = r.Range(400, 900)
		c.Tag("long-gene-sparse-substitutions")
	}
	genome := randSeq(r, L, symACGT, false)
	var genes []gene
	ng := r.Range(0, o.maxGenes)
	if sparseLong {
		// one gene over most of the genome (a hundred to three hundred codons)
		a := r.Range(1, 30)
		k := (L - a - r.Range(0, 30)) / 3
		genes = append(genes, gene{name: "glong", strand: 1, codonStart: 1, gffNamed: true, gffID: true, gffType: "CDS", gbForm: "range", segs: [][2]int{{a, a + 3*k - 1}}})
		ng = r.Range(0, 1)
	}
	for i := 0; i < ng; i++ {
		if g, ok := randGene(r, L, i, o.allowPhase); ok {
			if o.plusNames && r.Chance(1, 5) {
				// a fusion product: '+' is an ordinary character of a name in both annotation formats
				g.name += r.PickStr([]string{"+pol", "+", "+b+c"})
				c.Tag("plus-in-feature-name")
			}
			genes = append(genes, g)
		}
	}
	if r.Chance(1, 5) && len(genes) > 0 { // a second gene sharing the start of an existing one (nested)
		g := genes[0]
		g2 := gene{name: fmt.Sprintf("g%dn", len(genes)), strand: g.strand, codonStart: 1, gffNamed: true, gffID: true, gffType: "CDS", gbForm: "range"}
		ln := 6 + 3*r.Range(0, 2)
		if g.strand > 0 && g.segs[0][0]+ln-1 <= L {
			g2.segs = [][2]int{{g.segs[0][0], g.segs[0][0] + ln - 1}}
			genes = append(genes, g2)
			c.Tag("shared-start")
		}
	}
	if o.sameName && r.Chance(1, 6) && len(genes) > 0 && genes[0].strand > 0 && len(genes[0].segs) == 1 && genes[0].codonStart == 1 {
		// g, h, g: two coding sequences of one gene (as ORF1ab has in the SARS-CoV-2 record) with another feature listed
		// between them, sharing their first codons: the same aa record is generated twice, not next to each other
		g := genes[0]
		st := g.segs[0][0]
		for k, nm := range []string{fmt.Sprintf("g%dh", len(genes)), g.name} {
			ln := 6 + 3*r.Range(0, 3) + 3*k
			if st+ln-1 <= L {
				genes = append(genes, gene{name: nm, strand: 1, codonStart: 1, gffNamed: true, gffID: true, gffType: "CDS", gbForm: "range", segs: [][2]int{{st, st + ln - 1}}})
				if k == 1 {
					c.Tag("same-name-apart")
				}
			}
		}
	}
	// two loci of one gene name (a duplicated gene): the second locus is a copy of the first, and queries carry the same
	// changes in both - so the same residue change is reported twice, for two different places in the genome
	twin := [3]int{-1, -1, 0} // start of locus 1, start of locus 2 (1-based), length
	if o.sameNameLoci && r.Chance(1, 6) && len(genes) > 0 && genes[0].strand > 0 && len(genes[0].segs) == 1 && genes[0].codonStart == 1 {
		g := genes[0]
		a, b := g.segs[0][0], g.segs[0][1]
		ln := b - a + 1
		var starts []int
		for st := 1; st+ln-1 <= L; st++ {
			if st+ln-1 < a || st > b {
				starts = append(starts, st)
			}
		}
		if len(starts) > 0 && ln >= 6 {
			st := starts[r.Intn(len(starts))]
			gb := []byte(genome)
			copy(gb[st-1:st-1+ln], gb[a-1:b])
			genome = string(gb)
			genes = append(genes, gene{name: g.name, strand: 1, codonStart: 1, gffNamed: true, gffID: true, gffType: "CDS", gbForm: "range", segs: [][2]int{{st, st + ln - 1}}})
			twin = [3]int{a, st, ln}
			c.Tag("same-name-two-loci")
		}
	}
	if o.ambRef && r.Chance(1, 3) {
		genome = ambiguateReference(r, genome, genes)
		c.Tag("ambiguous-reference")
	}
	format := "gb"
	if r.Intn(o.fmtWeights[0]+o.fmtWeights[1]) >= o.fmtWeights[0] {
		format = "gff"
	}
	badCodon := false
	if o.ambRef && format == "gff" && len(genes) > 0 && r.Chance(1, 8) {
		// a reference codon whose expansions do not agree (N in its first position): the GFF route translates the
		// reference in strict mode and has to refuse it - as an error of the command, whatever way it is run
		g := genes[r.Intn(len(genes))]
		p := g.codingPositions()
		if len(p) >= 3 {
			k := 3 * r.Intn(len(p)/3)
			if k+g.codonStart-1 < len(p) {
				gb := []byte(genome)
				gb[p[k+g.codonStart-1]-1] = 'N'
				genome = string(gb)
				badCodon = true
				c.Tag("untranslatable-reference-codon")
			}
		}
	}
	refName := "REF" + fmt.Sprint(r.Intn(90)+10)
	var annText string
	if format == "gb" {
		txt, proto := renderGenbank(genes, genome)
		if r.Chance(1, 10) {
			txt = padGenbank(r, txt)
			c.Tag("genbank-origin-across-a-64KiB-boundary")
		}
		annText = txt
		c.Set("annfmt", "gb").Set("feats", proto).Set("rows", "")
	} else {
		var rows []gffRow
		for gi, g := range genes {
			if o.gffShapes && !o.bothFormats && g.strand > 0 && len(g.segs) == 1 && g.codonStart == 1 && r.Chance(1, 3) {
				// unnamed parent CDS with named mature-peptide children that leave a gap
				parent := g
				parent.gffNamed = false
				rows = append(rows, gffRowsOf(parent)...)
				a, b := g.segs[0][0], g.segs[0][1]
				n := (b - a + 1) / 3
				if n >= 3 {
					cut := a + 3*r.Range(1, n-2) - 1
					ch1 := gene{name: g.name + "a", strand: 1, codonStart: 1, segs: [][2]int{{a, cut}}, gffNamed: true, gffID: true, gffType: "mature_protein_region_of_CDS"}
					rows = append(rows, gffRowsOf(ch1)...)
					if cut+6 <= b-0 && r.Chance(2, 3) { // second child starting one codon later: a gap inside the parent
						ch2 := gene{name: g.name + "b", strand: 1, codonStart: 1, segs: [][2]int{{cut + 4, b}}, gffNamed: true, gffID: true, gffType: "mature_protein_region_of_CDS"}
						rows = append(rows, gffRowsOf(ch2)...)
					}
					c.Tag("unnamed-parent")
				}
				continue
			}
			if o.gffShapes && !o.bothFormats && r.Chance(1, 8) && len(g.segs) == 1 {
				g.gffID = false // a row without ID
				c.Tag("row-without-id")
			}
			_ = gi
			rows = append(rows, gffRowsOf(g)...)
		}
		if r.Chance(1, 3) {
			rows = sortRowsByStart(rows)
			c.Tag("rows-sorted-by-start")
		}
		txt, proto := renderGFF(rows, genome, true, r.Chance(2, 3), refName)
		annText = txt
		c.Set("annfmt", "gff").Set("feats", "").Set("rows", proto)
	}
	c.Set("anntext", annText)
	refmode := r.PickStr([]string{"msa", "msa", "stdin", "ann"})
	withIns := o.withIns && refmode != "ann"
	nq := r.Range(1, 6)
	if sparseLong {
		nq = r.Range(30, 60)
	}
	if o.agg && L <= 60 && r.Chance(1, 12) {
		// 1024 queries: frequencies k/1024 have ten decimals exactly, so every odd k is an exact tie at the ninth
		nq = 1024
		c.Tag("1024-queries")
	}
	m := buildMSA(r, genome, nq, withIns, o.gapRich)
	if twin[0] > 0 {
		// most queries carry, at the second locus, exactly what they carry at the first
		var colOf []int // alignment column of reference position p (1-based) at colOf[p]
		colOf = append(colOf, -1)
		for ci := 0; ci < len(m.refRow); ci++ {
			if m.refRow[ci] != '-' {
				colOf = append(colOf, ci)
			}
		}
		for qi := range m.rows {
			if r.Chance(1, 4) {
				continue
			}
			row := []byte(m.rows[qi])
			for k := 0; k < twin[2]; k++ {
				row[colOf[twin[1]+k]] = row[colOf[twin[0]+k]]
			}
			m.rows[qi] = string(row)
		}
	}
	if o.agg && len(m.rows) >= 2 && r.Chance(1, 2) {
		// two queries reach the same residue change through different codons (aggregate with --append-snps must keep
		// their SNP lists apart): look for a codon of a forward single-segment gene with two such substitutions
		var colOf []int
		colOf = append(colOf, -1)
		for ci := 0; ci < len(m.refRow); ci++ {
			if m.refRow[ci] != '-' {
				colOf = append(colOf, ci)
			}
		}
	search:
		for _, g := range genes {
			if g.strand < 0 || len(g.segs) != 1 || g.codonStart != 1 {
				continue
			}
			for p := g.segs[0][0]; p+2 <= g.segs[0][1]; p += 3 {
				ref3 := [3]byte{genome[p-1], genome[p], genome[p+1]}
				if strings.IndexByte(symACGT, ref3[0]) < 0 || strings.IndexByte(symACGT, ref3[1]) < 0 || strings.IndexByte(symACGT, ref3[2]) < 0 {
					continue
				}
				byAA := map[byte][][3]byte{}
				for k := 0; k < 3; k++ {
					for _, b := range []byte(symACGT) {
						if b == ref3[k] {
							continue
						}
						alt := ref3
						alt[k] = b
						if aa := codonAA(alt); aa != codonAA(ref3) && aa != '?' {
							byAA[aa] = append(byAA[aa], alt)
						}
					}
				}
				for _, aa := range []byte("ACDEFGHIKLMNPQRSTVWY*") {
					if alts := byAA[aa]; len(alts) >= 2 {
						qi, qj := r.Intn(len(m.rows)), r.Intn(len(m.rows)-1)
						if qj >= qi {
							qj++
						}
						for t, q := range []int{qi, qj} {
							row := []byte(m.rows[q])
							for k := 0; k < 3; k++ {
								row[colOf[p+k]] = alts[t][k]
							}
							m.rows[q] = string(row)
						}
						c.Tag("same-residue-change-two-codons")
						break search
					}
				}
			}
		}
	}
	names, rows := m.names, m.rows
	switch refmode {
	case "msa":
		at := r.Intn(len(names) + 1)
		if at > 0 && r.Chance(1, 5) {
			// a record in front of the reference whose ID only extends the reference's ID (a passage of the same isolate)
			names = append([]string{}, names...)
			names[r.Intn(at)] = refName + r.PickStr([]string{"/p4", ".2", "x", "-dup"})
			c.Tag("id-extends-reference-id")
		}
		names = append(append(append([]string{}, names[:at]...), refName), names[at:]...)
		rows = append(append(append([]string{}, rows[:at]...), m.refRow), rows[at:]...)
	case "stdin":
		names = append([]string{refName}, names...)
		rows = append([]string{m.refRow}, rows...)
	}
	c.Set("refmode", refmode).Set("refname", refName).Set("origin", genome)
	c.Set("names", strings.Join(names, ",")).Set("seqs", strings.Join(rows, ","))
	c.SetBool("append", r.Bool())
	start, end := -1, -1
	if o.window && r.Chance(2, 3) {
		switch r.Intn(3) {
		case 0:
			start = r.Range(1, L)
		case 1:
			end = r.Range(1, L)
		default:
			start = r.Range(1, L)
			end = r.Range(start, L)
		}
		// a bound that falls exactly on a position shared by several mutations (an insertion right after a SNP)
		if len(m.hot) > 0 && r.Chance(1, 2) {
			h := m.hot[r.Intn(len(m.hot))]
			switch {
			case end != -1 && (start == -1 || start <= h) && r.Bool():
				end = h
			case start != -1 && (end == -1 || h <= end):
				start = h
			case end != -1 && (start == -1 || start <= h):
				end = h
			}
			c.Tag("window-on-shared-position")
		}
		c.Tag("window")
	}
	c.SetInt("start", start).SetInt("end", end)
	agg := o.agg && r.Chance(2, 3)
	c.SetBool("agg", agg)
	thrN, thrD := 0, 1
	if agg {
		thrN, thrD = genThreshold(r, len(m.rows))
	}
	c.SetInt("thrn", thrN).SetInt("thrd", thrD)
	c.SetInt("threads", r.PickInt([]int{1, 2, 4}))
	if strings.Contains(m.refRow, "-") {
		c.Tag("ref-gaps")
	}
	for _, g := range genes {
		if g.strand < 0 {
			c.Tag("reverse")
		}
		if len(g.segs) > 1 {
			c.Tag("joined")
		}
		if g.codonStart > 1 {
			c.Tag("codon-start")
		}
	}
	c.NonTrv = len(genes) > 0 || strings.Contains(m.refRow, "-")
	maybeCLI(r, c, 6)
	if badCodon && r.Chance(2, 3) {
		c.Set("via", "cli")
	}
	return c
}

type stdinReader struct{ *strings.Reader }

// runVariants executes variants.Variants on the case (optionally with an alternative alignment / annotation)
func runVariants(c *Case, seqs []string, names []string, annText string, annSuffix string, agg bool, forceStdin bool) result {
	layout := randLayout(NewRNG(idSeed(c.ID)))
	layout.noEOL = false
	switch c.Get("lay") {
	case "plain": // one line per sequence, LF
		layout = layoutOf(0, false)
	case "crlfwrap": // CRLF line ends and every sequence (the reference included) wrapped over several lines
		layout = layoutOf(1+int(idSeed(c.ID)%9), true)
	}
	// headers: the ID, and for some records a description after a blank, a TAB or several blanks (the ID is the first
	// white-space delimited token for every reader, the reference look-up included)
	hr := NewRNG(idSeed(c.ID) + 17)
	headers := make([]string, len(names))
	for i, n := range names {
		headers[i] = n
		if hr.Chance(1, 3) {
			headers[i] = n + hr.PickStr([]string{" ", "\t", "  ", " \t"}) + fmt.Sprintf("isolate %d|2020", i)
		}
	}
	msaTxt := renderFasta(headers, seqs, layout)
	refID := c.Get("refname")
	stdin := c.Get("refmode") == "stdin" || forceStdin
	if c.Get("refmode") == "ann" {
		refID = ""
	}
	thr := decThr(atoi(c.Get("thrn")), max1(atoi(c.Get("thrd"))))
	if isCLI(c) {
		args := []string{"variants", "-a", "{dir}/ann." + annSuffix, "-t", c.Get("threads")}
		files := map[string]string{"ann." + annSuffix: annText}
		in := ""
		if stdin {
			args = append(args, "--msa", "stdin")
			in = msaTxt
		} else {
			args = append(args, "--msa", "{dir}/m.fa")
			files["m.fa"] = msaTxt
		}
		if refID != "" {
			args = append(args, "-r", refID)
		}
		if atoi(c.Get("start")) != -1 {
			args = append(args, "--start", c.Get("start"))
		}
		if atoi(c.Get("end")) != -1 {
			args = append(args, "--end", c.Get("end"))
		}
		if agg {
			args = append(args, "--aggregate", "--threshold", decStr(atoi(c.Get("thrn")), max1(atoi(c.Get("thrd")))))
		}
		if c.Get("append") == "1" {
			args = append(args, "--append-snps")
		}
		return viaCLI(files, in, args, nil)
	}
	return safeRun(30*time.Second, func() (string, error) {
		var out bytes.Buffer
		err := variants.Variants(bytes.NewReader([]byte(msaTxt)), stdin, refID, strings.NewReader(annText), annSuffix, &out,
			atoi(c.Get("start")), atoi(c.Get("end")), agg, thr, c.Get("append") == "1", atoi(c.Get("threads")))
		return out.String(), err
	})
}

func max1(x int) int {
	if x < 1 {
		return 1
	}
	return x
}

func execVar(r *RNG, c *Case) {
	names := strings.Split(c.Get("names"), ",")
	seqs := strings.Split(c.Get("seqs"), ",")
	res := runVariants(c, seqs, names, c.Get("anntext"), c.Get("annfmt"), c.Get("agg") == "1", false)
	c.Set("go", goField(res))
}

func init() {
	execs["VAR"] = execVar
	execs["REL"] = execRel
}

// padGenbank: COMMENT lines in front of FEATURES, as many bytes as it takes for the ORIGIN section to lie across a multiple
// of 64 KiB of the file (the sizes in which a scanner refills its buffer): the file is larger than any buffer a reader
// starts with, although the genome is short
func padGenbank(r *RNG, txt string) string {
	fi := strings.Index(txt, "FEATURES")
	oi := strings.Index(txt, "\nORIGIN")
	if fi < 0 || oi < 0 {
		return txt
	}
	oi++ // offset of the ORIGIN line
	originLen := len(txt) - oi
	target := 65536*r.Range(1, 2) - r.Range(1, originLen-1) // where the ORIGIN line is to begin
	pad := target - oi
	var b strings.Builder
	for pad > 0 {
		n := 80
		if pad < 80+14 {
			n = pad
		}
		if n < 14 {
			break
		}
		b.WriteString("COMMENT     " + strings.Repeat("x", n-13) + "\n")
		pad -= n
	}
	return txt[:fi] + b.String() + txt[fi:]
}
