package main

import (
	"encoding/hex"
	"fmt"
	"github.com/virus-evolution/gofasta/pkg/gff"
	"os"
	"path/filepath"
	"strings"
	"time"

	"github.com/virus-evolution/gofasta/pkg/fastaio"
	"github.com/virus-evolution/gofasta/pkg/variants"
)

func init() {
	gens["C16"] = c16Gen
	execs["C16"] = func(r *RNG, c *Case) {
		if c.Prop == "REL" {
			execRel(r, c)
			return
		}
		execC16(r, c)
	}
	shrinkers["C16"] = shrinkText
}

const (
	sepUS = "\x1f"
	sepRS = "\x1e"
	sepFS = "\x1c"
)

// renderLayout: per-record random chunking, CRLF, final newline
func renderLayout(r *RNG, headers, seqs []string) string {
	var b strings.Builder
	eol := "\n"
	if r.Chance(1, 4) {
		eol = "\r\n"
	}
	for i := range headers {
		b.WriteString(">" + headers[i] + eol)
		s := seqs[i]
		for len(s) > 0 {
			w := len(s)
			switch r.Intn(3) {
			case 0:
				w = r.Range(1, 5)
			case 1:
				w = r.Range(1, 70)
			}
			if w > len(s) {
				w = len(s)
			}
			b.WriteString(s[:w] + eol)
			s = s[w:]
		}
	}
	out := b.String()
	if r.Chance(1, 4) {
		out = strings.TrimSuffix(out, eol)
	}
	return out
}

func c16Valid(r *RNG) (ids, descs, seqs []string) {
	n := r.Range(1, 8)
	w := r.Range(1, 120)
	if r.Chance(1, 3) {
		w = r.Range(1, 8)
	}
	ids = randNames(r, n, "")
	for i := 0; i < n; i++ {
		d := ids[i]
		switch r.Intn(5) {
		case 0:
			d = ids[i] + " desc " + fmt.Sprint(i)
		case 1:
			d = ids[i] + "\tx=1 y"
		case 2:
			d = " " + ids[i] + "  lead"
		}
		descs = append(descs, d)
		switch r.Intn(3) {
		case 0:
			seqs = append(seqs, randSeq(r, w, symACGT, r.Bool()))
		default:
			seqs = append(seqs, randSeq(r, w, sym17, true))
		}
	}
	return
}

func c16Gen(r *RNG, id string) *Case {
	if r.Chance(1, 12) {
		// the readers as `variants` strings them together (find the reference, rewind, stream the alignment): the output
		// must not depend on the layout of the alignment file
		vc := genVarCase(r, id, varOpts{fmtWeights: [2]int{1, 1}, withIns: r.Bool(), maxGenes: 2})
		vc.Set("via", "")
		return relOf(vc, "layout", "eq")
	}
	if r.Chance(1, 250) {
		// an alignment of several MiB (built from the case's parameters when the case runs, not carried in the case line):
		// the reference look-up of `variants` against the list reader, for a reference record that lies across a 1 MiB
		// boundary of the file (any reader that keeps slices of its scanner's buffer loses it there)
		c := NewCase("C16", id)
		c.SetInt("bigseed", r.Intn(1<<30)).SetInt("bignrec", r.Range(2600, 3600)).SetInt("bigwidth", r.Range(900, 1100)).SetInt("bigwrap", r.PickInt([]int{60, 70, 80, 0, 0}))
		c.SetInt("bigmib", r.Range(1, 2))
		return relOf(c, "bigref", "same")
	}
	if r.Chance(1, 40) {
		// one alignment file named by two options of one command (closest --query X --target X; snps -r first.fa -q X):
		// each option's reader must see the whole file, as if two copies had been given
		ids, descs, seqs := c16Valid(r)
		_ = ids
		c := NewCase("C16", id)
		c.Set("text", renderFasta(descs, seqs, layout{width: r.PickInt([]int{0, 60}), crlf: r.Chance(1, 5)}))
		return relOf(c, "samefile", "same")
	}
	if r.Chance(1, 10) {
		// the `##FASTA` section reader of gff.ReadGFF against the list reader on the same text: a valid file (distinct
		// IDs), as it is or with white space around one of its lines - both must read the same records or both refuse
		ids, descs, seqs := c16Valid(r)
		seen := map[string]bool{}
		for i := range ids {
			for seen[ids[i]] {
				descs[i] = "u" + descs[i]
				ids[i] = "u" + ids[i]
			}
			seen[ids[i]] = true
		}
		lay := layout{width: r.PickInt([]int{0, 0, 7, 60}), crlf: r.Chance(1, 4), noEOL: r.Chance(1, 4)}
		text := renderFasta(descs, seqs, lay)
		if r.Chance(1, 2) {
			lines := strings.Split(text, "\n")
			k := r.Intn(len(lines))
			cr := strings.HasSuffix(lines[k], "\r")
			l := strings.TrimSuffix(lines[k], "\r")
			pad := r.PickStr([]string{" ", "\t", "  "})
			if r.Bool() {
				l = pad + l
			} else {
				l = l + pad
			}
			if cr {
				l += "\r"
			}
			lines[k] = l
			text = strings.Join(lines, "\n")
		}
		c := NewCase("C16", id)
		c.Set("text", text)
		return relOf(c, "gfffasta", "same")
	}
	c := NewCase("C16", id)
	ids, descs, seqs := c16Valid(r)
	if r.Chance(1, 150) {
		// sequences longer than bufio.Scanner's default 64 KiB token on one line each (a large genome, unwrapped)
		w := 66000 + r.Intn(9000)
		ids, descs, seqs = []string{"long1", "long2"}, []string{"long1 unwrapped genome", "long2"}, nil
		base := randSeq(r, w, symACGT, false)
		seqs = append(seqs, base, mutateSeq(r, base, "ACGTN-", 1, 2000, true))
		c.Tag("line-longer-than-64KiB")
		text := ">" + descs[0] + "\n" + seqs[0] + "\n>" + descs[1] + "\n" + seqs[1] + "\n"
		c.SetBool("hard", r.Bool()).Set("refid", "long2")
		c.Set("kind", "layout").Set("ids", strings.Join(ids, ",")).Set("descs", strings.Join(descs, sepUS)).Set("seqs", strings.Join(seqs, ","))
		c.Set("text", text)
		c.NonTrv = true
		c.Tag("layout")
		return c
	}
	if r.Chance(1, 40) {
		// unwrapped records of several hundred symbols, one of which (the one looked up as the reference) ends a few bytes
		// before byte 4096, 8192 or 16384 of the file - the sizes through which a bufio.Scanner's buffer grows - so that the
		// next header straddles the boundary: a reader that keeps a slice of the scanner's buffer loses that record there
		B := 4096 << uint(r.Intn(3))
		w := r.Range(500, 1200)
		base := randSeq(r, w, symACGT, false)
		ids, descs, seqs = nil, nil, nil
		off := 0
		for i := 0; ; i++ {
			idn := fmt.Sprintf("rec%d", i)
			sq := mutateSeq(r, base, "ACGTN-", 1, 30, false)
			if off+len(idn)+2+w+1+len(idn)+2+w+1 > B-2 { // this one is the last before the boundary: pad its header
				d := r.Range(1, 5)
				pad := B - d - (off + 1 + len("theref") + 1 + 1 + w + 1) // '>' id ' ' pad '\n' seq '\n'
				if pad < 0 {
					pad = 0
				}
				ids = append(ids, "theref")
				descs = append(descs, "theref "+strings.Repeat("x", pad))
				seqs = append(seqs, sq)
				break
			}
			ids, descs, seqs = append(ids, idn), append(descs, idn), append(seqs, sq)
			off += 1 + len(idn) + 1 + w + 1
		}
		for i := 0; i < 3; i++ {
			idn := fmt.Sprintf("after%d", i)
			ids, descs, seqs = append(ids, idn), append(descs, idn+" sample"), append(seqs, mutateSeq(r, base, "ACGTN-", 1, 30, false))
		}
		text := renderFasta(descs, seqs, layout{})
		c.SetBool("hard", r.Bool()).Set("refid", "theref")
		c.Set("kind", "layout").Set("ids", strings.Join(ids, ",")).Set("descs", strings.Join(descs, sepUS)).Set("seqs", strings.Join(seqs, ","))
		c.Set("text", text)
		c.NonTrv = true
		c.Tag("layout")
		c.Tag("record-ends-at-buffer-boundary")
		return c
	}
	text := renderLayout(r, descs, seqs)
	c.SetBool("hard", r.Bool())
	refid := ids[r.Intn(len(ids))]
	if r.Chance(1, 6) {
		refid = "absent"
	}
	c.Set("refid", refid)
	if r.Chance(1, 2) {
		c.Set("kind", "layout").Set("ids", strings.Join(ids, ",")).Set("descs", strings.Join(descs, sepUS)).Set("seqs", strings.Join(seqs, ","))
		c.Set("text", text)
		c.NonTrv = len(ids) > 1 || strings.Contains(text, "\r")
		c.Tag("layout")
		return c
	}
	// structured corruption of a valid file
	c.Set("kind", "mal")
	lines := strings.Split(text, "\n")
	nm := r.Range(1, 2)
	for k := 0; k < nm; k++ {
		if len(lines) == 0 {
			break
		}
		i := r.Intn(len(lines))
		switch m := r.Intn(16); m {
		case 0: // delete a line
			lines = append(lines[:i], lines[i+1:]...)
			c.Tag("del-line")
		case 1: // blank line somewhere
			lines = append(lines[:i], append([]string{""}, lines[i:]...)...)
			c.Tag("blank-line")
		case 2: // duplicate a line
			lines = append(lines[:i], append([]string{lines[i]}, lines[i:]...)...)
			c.Tag("dup-line")
		case 3: // header without an ID
			lines[i] = ">"
			c.Tag("header-no-id")
		case 4:
			lines[i] = ">  \t"
			c.Tag("header-no-id")
		case 5: // blank first line
			lines = append([]string{""}, lines...)
			c.Tag("blank-first")
		case 6: // CR-only line
			lines = append(lines[:i], append([]string{"\r"}, lines[i:]...)...)
			c.Tag("blank-line")
		case 7, 8: // a byte outside the alphabet inside a sequence line
			if !strings.HasPrefix(lines[i], ">") && len(lines[i]) > 0 {
				p := r.Intn(len(lines[i]))
				lines[i] = lines[i][:p] + string(r.Pick("XzJ1* .eEiO>")) + lines[i][p+1:]
				c.Tag("bad-symbol")
			}
		case 9: // shorten a sequence line (first / middle / last record alike)
			if !strings.HasPrefix(lines[i], ">") && len(lines[i]) > 1 {
				lines[i] = lines[i][:len(lines[i])-1]
				c.Tag("short-row")
			}
		case 10: // lengthen
			if !strings.HasPrefix(lines[i], ">") {
				lines[i] = lines[i] + "A"
				c.Tag("long-row")
			}
		case 11: // drop the first header
			lines = lines[1:]
			c.Tag("no-leading-header")
		case 12: // empty file / only whitespace
			if r.Bool() {
				lines = nil
			} else {
				lines = []string{"", ""}
			}
			c.Tag("empty")
		case 13: // only headers
			var hs []string
			for _, l := range lines {
				if strings.HasPrefix(l, ">") {
					hs = append(hs, l)
				}
			}
			lines = hs
			c.Tag("only-headers")
		case 14: // remove the last record's sequence
			for j := len(lines) - 1; j >= 0; j-- {
				if strings.HasPrefix(lines[j], ">") {
					lines = lines[:j+1]
					break
				}
			}
			c.Tag("empty-last")
		case 15: // printable garbage line
			lines = append(lines[:i], append([]string{randSeq(r, r.Range(1, 10), "ACGT>- \tNnxyz?,;", false)}, lines[i:]...)...)
			c.Tag("garbage")
		}
	}
	c.Set("text", strings.Join(lines, "\n"))
	c.NonTrv = true
	return c
}

func renderEFR(fr fastaio.EncodedFastaRecord, score bool) string {
	f := []string{fr.ID, fr.Description, hex.EncodeToString(fr.Seq), fmt.Sprint(fr.Idx)}
	if score {
		f = append(f, fmt.Sprint(fr.Score), fmt.Sprint(fr.Count_A), fmt.Sprint(fr.Count_C), fmt.Sprint(fr.Count_G), fmt.Sprint(fr.Count_T))
	}
	return strings.Join(f, sepUS)
}

// runReader drives one channel-based reader in a goroutine we own (so a panic can be recovered)
func runEncReader(text string, hard bool, score bool) result {
	return safeRun(10*time.Second, func() (string, error) {
		ch := make(chan fastaio.EncodedFastaRecord)
		cErr := make(chan error)
		cDone := make(chan bool)
		cPanic := make(chan string, 1)
		go func() {
			defer func() {
				if p := recover(); p != nil {
					cPanic <- fmt.Sprint(p)
				}
			}()
			if score {
				fastaio.ReadEncodeScoreAlignment(strings.NewReader(text), hard, ch, cErr, cDone)
			} else {
				fastaio.ReadEncodeAlignment(strings.NewReader(text), hard, ch, cErr, cDone)
			}
		}()
		var recs []string
		for {
			select {
			case fr := <-ch:
				recs = append(recs, renderEFR(fr, score))
			case err := <-cErr:
				return "", err
			case p := <-cPanic:
				panic(p)
			case <-cDone:
				return strings.Join(recs, sepRS), nil
			}
		}
	})
}

func runPlainReader(text string) result {
	return safeRun(10*time.Second, func() (string, error) {
		ch := make(chan fastaio.FastaRecord)
		cErr := make(chan error)
		cDone := make(chan bool)
		cPanic := make(chan string, 1)
		go func() {
			defer func() {
				if p := recover(); p != nil {
					cPanic <- fmt.Sprint(p)
				}
			}()
			fastaio.ReadAlignment(strings.NewReader(text), ch, cErr, cDone)
		}()
		var recs []string
		for {
			select {
			case fr := <-ch:
				recs = append(recs, strings.Join([]string{fr.ID, fr.Description, fr.Seq, fmt.Sprint(fr.Idx)}, sepUS))
			case err := <-cErr:
				return "", err
			case p := <-cPanic:
				panic(p)
			case <-cDone:
				return strings.Join(recs, sepRS), nil
			}
		}
	})
}

func runListReader(text string, hard bool) result {
	return safeRun(10*time.Second, func() (string, error) {
		rs, err := fastaio.ReadEncodeAlignmentToList(strings.NewReader(text), hard)
		if err != nil {
			return "", err
		}
		var recs []string
		for _, fr := range rs {
			recs = append(recs, renderEFR(fr, false))
		}
		return strings.Join(recs, sepRS), nil
	})
}

// The FASTA section of a GFF3 annotation (`##FASTA`) is read by gff.ReadGFF through the list reader: it is one more FASTA
// reader of the program and must treat a text like the others do. Both sides are rendered as ID, description,
// upper-cased sequence text, index.
func renderTextRec(id, desc, seq string, idx int) string {
	return strings.Join([]string{id, desc, strings.ToUpper(seq), fmt.Sprint(idx)}, sepUS)
}

func runListAsText(text string) result {
	return safeRun(10*time.Second, func() (string, error) {
		rs, err := fastaio.ReadEncodeAlignmentToList(strings.NewReader(text), false)
		if err != nil {
			return "", err
		}
		var recs []string
		for _, fr := range rs {
			d := fr.Decode()
			recs = append(recs, renderTextRec(d.ID, d.Description, d.Seq, d.Idx))
		}
		return strings.Join(recs, sepRS), nil
	})
}

func runGffFastaSection(text string) result {
	return safeRun(10*time.Second, func() (string, error) {
		g, err := gff.ReadGFF(strings.NewReader("##gff-version 3\n##FASTA\n" + text))
		if err != nil {
			return "", err
		}
		recs := make([]string, len(g.FASTA))
		for _, fr := range g.FASTA {
			if fr.Idx < 0 || fr.Idx >= len(recs) {
				return "", fmt.Errorf("record index %d of %d", fr.Idx, len(recs))
			}
			recs[fr.Idx] = renderTextRec(fr.ID, fr.Description, fr.Seq, fr.Idx)
		}
		return strings.Join(recs, sepRS), nil
	})
}

// bigAlignmentText: the alignment of a "bigref" case and the ID of the record that contains byte offset mib * 2^20
func bigAlignmentText(c *Case) (string, string) {
	r := NewRNG(uint64(atoi(c.Get("bigseed"))))
	n, w, wrap := atoi(c.Get("bignrec")), atoi(c.Get("bigwidth")), atoi(c.Get("bigwrap"))
	base := randSeq(r, w, symACGT, false)
	var b strings.Builder
	target := atoi(c.Get("bigmib")) << 20
	refID := ""
	for i := 0; i < n; i++ {
		start := b.Len()
		fmt.Fprintf(&b, ">seq_%d sample %d\n", i, i)
		s := mutateSeq(r, base, "ACGTN-", 1, 50, false)
		for len(s) > 0 {
			k := wrap
			if k > len(s) || k == 0 { // wrap 0: the whole sequence on one line
				k = len(s)
			}
			b.WriteString(s[:k] + "\n")
			s = s[k:]
		}
		if refID == "" && start < target && b.Len() > target+200 {
			refID = fmt.Sprintf("seq_%d", i)
		}
	}
	if refID == "" {
		refID = fmt.Sprintf("seq_%d", n/2)
	}
	return b.String(), refID
}

func runBigRef(c *Case) (a, b result) {
	text, refID := bigAlignmentText(c)
	a = safeRun(60*time.Second, func() (string, error) {
		rs, err := fastaio.ReadEncodeAlignmentToList(strings.NewReader(text), false)
		if err != nil {
			return "", err
		}
		for _, fr := range rs {
			if fr.ID == refID {
				return renderEFR(fr, false), nil
			}
		}
		return "", fmt.Errorf("no record %s", refID)
	})
	b = runFindReference(text, refID)
	return a, b
}

// runSameFile: `closest` with query and target given as two copies of the text, against the same path given twice
func runSameFile(c *Case) (a, b result) {
	if opts.gobin == "" {
		return result{out: "skipped", status: "ok"}, result{out: "skipped", status: "ok"}
	}
	tmpCounter++
	dir := filepath.Join(opts.tmp, fmt.Sprintf("c16-%d-%d", os.Getpid(), tmpCounter))
	os.MkdirAll(dir, 0755)
	defer os.RemoveAll(dir)
	for _, n := range []string{"x.fa", "y.fa"} {
		os.WriteFile(filepath.Join(dir, n), []byte(c.Get("text")), 0644)
	}
	run := func(q, t string) result {
		o, se, code, to := runCLI(30*time.Second, "", "closest", "--query", q, "--target", t, "-m", "snp", "-t", "2")
		if to {
			return result{status: "timeout"}
		}
		if code != 0 {
			return result{status: "err:" + firstLine(se)}
		}
		return result{out: o, status: "ok"}
	}
	x, y := filepath.Join(dir, "x.fa"), filepath.Join(dir, "y.fa")
	a = run(x, y)
	b = run(x, filepath.Join(dir, ".", "x.fa"))
	return a, b
}

func runFindReference(text string, refid string) result {
	return safeRun(10*time.Second, func() (string, error) {
		fr, err := variants.VerifFindReference(strings.NewReader(text), refid)
		if err != nil {
			return "", err
		}
		return renderEFR(fr, false), nil
	})
}

func execC16(r *RNG, c *Case) {
	text := c.Get("text")
	hard := c.Get("hard") == "1"
	outs := []string{
		goField(runPlainReader(text)),
		goField(runEncReader(text, hard, false)),
		goField(runEncReader(text, hard, true)),
		goField(runListReader(text, hard)),
		goField(runFindReference(text, c.Get("refid"))),
	}
	c.Set("go", strings.Join(outs, sepFS))
}

// shrinkText: drop a line or a character of field "text"
func shrinkText(c *Case) []*Case {
	if c.Get("kind") == "layout" {
		return nil
	}
	text := c.Get("text")
	lines := strings.Split(text, "\n")
	var out []*Case
	for i := range lines {
		n := cloneCase(c)
		n.Set("text", strings.Join(append(append([]string{}, lines[:i]...), lines[i+1:]...), "\n"))
		out = append(out, n)
	}
	if len(text) <= 60 {
		for i := 0; i < len(text); i++ {
			n := cloneCase(c)
			n.Set("text", text[:i]+text[i+1:])
			out = append(out, n)
		}
	}
	return out
}
