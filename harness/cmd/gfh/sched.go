package main

// sched.go: the tie between Model/Sched (small-step model of the one-pool pipeline) and the three one-pool commands that
// can be called in-process: the OUTCOME of a run - nil and every record once, in input order, or an error - under a
// failure planted in the reader (a bad symbol in record k), in the workers (variants: rows of another width than the
// annotated genome), or in the writer (the j-th write call fails, once or from then on). The Lean driver runs the model
// under three pseudo-random schedules and compares.

import (
	"bytes"
	"fmt"
	"io"
	"runtime"
	"strings"
	"time"

	"github.com/virus-evolution/gofasta/pkg/sam"
	"github.com/virus-evolution/gofasta/pkg/snps"
	"github.com/virus-evolution/gofasta/pkg/updown"
	"github.com/virus-evolution/gofasta/pkg/variants"
)

func schedGen(r *RNG, id string) *Case {
	c := NewCase("SCHED", id)
	cmd := r.PickStr([]string{"snps", "list", "variants", "samvariants"})
	n := r.Range(1, 40)
	if r.Chance(1, 6) {
		n = r.Range(100, 300)
	}
	fails := []string{"none", "none", "read", "write", "write-once"}
	if cmd == "variants" {
		fails = append(fails, "work", "work")
	}
	fail := r.PickStr(fails)
	c.Set("cmd", cmd).SetInt("n", n).Set("fail", fail)
	c.SetInt("k", r.Intn(n)) // reader: the record that is broken; writer: which of its loop iterations fails
	if r.Chance(1, 4) {
		c.SetInt("k", []int{0, n - 1}[r.Intn(2)])
	}
	threads := r.PickInt([]int{1, 2, 3, 8})
	if cmd != "variants" && cmd != "samvariants" {
		threads = runtime.NumCPU() // snps and updown list size their pool from the processor count
	}
	c.SetInt("threads", threads)
	c.SetInt("schedseed", r.Intn(1<<30))
	c.SetInt("dataseed", r.Intn(1<<30))
	c.Set("jit", fmt.Sprint(1+r.Intn(1<<20)))
	c.Tag(cmd)
	c.Tag("fail-" + fail)
	c.NonTrv = true
	return c
}

func execSched(_ *RNG, c *Case) {
	r := NewRNG(uint64(atoi(c.Get("dataseed"))))
	n, k, fail, cmd := atoi(c.Get("n")), atoi(c.Get("k")), c.Get("fail"), c.Get("cmd")
	w := r.Range(12, 30)
	ref := randSeq(r, w, symACGT, false)
	names := make([]string, n)
	seqs := make([]string, n)
	for i := range names {
		names[i] = fmt.Sprintf("r%d", i)
		seqs[i] = mutateSeq(r, ref, symACGT, 1, 4, false)
		if fail == "work" {
			seqs[i] += "A" // every row one column wider than the annotated genome
		}
	}
	if fail == "read" {
		b := []byte(seqs[k])
		b[r.Intn(len(b))] = '!'
		seqs[k] = string(b)
	}
	aln := renderFasta(names, seqs, layout{})
	refTxt := renderFasta([]string{"ref"}, []string{ref}, layout{})
	var out bytes.Buffer
	var wtr io.Writer = &out
	if strings.HasPrefix(fail, "write") {
		// header = write 1; snps and list make one write per record, variants two: aim at record k's iteration
		per := 1
		if cmd == "variants" || cmd == "samvariants" {
			per = 2
		}
		wtr = &tee{fw: &faultWriter{k: 2 + per*k, once: fail == "write-once"}, buf: &out}
	}
	res := safeRun(30*time.Second, func() (string, error) {
		var err error
		switch cmd {
		case "snps":
			err = snps.SNPs(strings.NewReader(refTxt), strings.NewReader(aln), false, false, 0, wtr)
		case "list":
			err = updown.List(strings.NewReader(refTxt), strings.NewReader(aln), wtr)
		case "samvariants":
			// two pools (pair alignment, variant calling); the reader fails on a record whose CIGAR is not one
			var recs []samRec
			for i := range names {
				cg := fmt.Sprintf("%dM", w)
				if fail == "read" && i == k {
					cg = fmt.Sprintf("%dQ", w)
				}
				recs = append(recs, samRec{name: names[i], flag: 0, pos: 1, cigar: cg, seq: strings.ReplaceAll(seqs[i], "!", "A")})
			}
			g := gene{name: "g0", strand: 1, codonStart: 1, segs: [][2]int{{1, 6}}, gbForm: "range", gffNamed: true, gffID: true, gffType: "CDS"}
			gb, _ := renderGenbank([]gene{g}, ref)
			err = sam.Variants(strings.NewReader(samText("ref", w, recs, true)), strings.NewReader(refTxt), true, strings.NewReader(gb), "gb", wtr,
				-1, -1, false, 0, false, atoi(c.Get("threads")))
		default:
			g := gene{name: "g0", strand: 1, codonStart: 1, segs: [][2]int{{1, 6}}, gbForm: "range", gffNamed: true, gffID: true, gffType: "CDS"}
			gb, _ := renderGenbank([]gene{g}, ref)
			err = variants.Variants(strings.NewReader(aln), false, "", strings.NewReader(gb), "gb", wtr, -1, -1, false, 0, false, atoi(c.Get("threads")))
		}
		return out.String(), err
	})
	if res.status != "ok" {
		c.Set("go", "!"+statusClass(res.status))
		return
	}
	var idx []string
	for i, l := range strings.Split(strings.TrimSuffix(res.out, "\n"), "\n") {
		if i == 0 {
			continue
		}
		idx = append(idx, strings.TrimPrefix(strings.SplitN(l, ",", 2)[0], "r"))
	}
	c.Set("go", "ok:"+strings.Join(idx, " "))
}

// tee passes the bytes on to buf when the fault writer accepts them
type tee struct {
	fw  *faultWriter
	buf *bytes.Buffer
}

func (t *tee) Write(p []byte) (int, error) {
	if _, err := t.fw.Write(p); err != nil {
		return 0, err
	}
	return t.buf.Write(p)
}

func init() {
	gens["C12sched"] = schedGen
	execs["SCHED"] = execSched
	execs["C12sched"] = func(r *RNG, c *Case) { execs[c.Prop](r, c) }
}
