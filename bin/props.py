"""Per-property configuration of bin/check: correspondence streams (quick n, thorough n per seed),
whether the CLI binary is needed, the non-triviality rule that the harness applies (field nt=1)."""

PROPS = {
    "C03": {
        "extra_imports": ["Gofasta.Props.ColsSnps"],
        "extra_theorems": ["Gofasta.Props.Cols.snps_append", "Gofasta.Props.Cols.snpsRowEnc_cons"],
        "cli": True,
        "streams": {"C03": (300, 4000)},
        "thorough_seeds": 3,
        "shrink": True,
        "rule": "random reference (A/C/G/T or all 17 symbols, mixed case) and 1-30 rows (uniform over the 17 symbols / "
                "mutated copies), widths 1-300, both gap modes, random FASTA layout; run through snps.SNPs in-process; "
                "non-trivial = some row or the reference carries a non-A/C/G/T symbol; distinct = distinct (ref, rows, mode)",
    },
    "C17": {
        "cli": True,
        "streams": {"C17": (2000, 30000), "C17var": (300, 4000)},
        "thorough_seeds": 3,
        "rule": "the finite tables are decided outright by the kernel on the regenerated dictionaries (3375 codons, 32 characters); "
                "the stream runs alphabet.Translate (strict and lenient), Complement, ReverseComplement and the FastaRecord / "
                "EncodedFastaRecord complement methods on random sequences (A/C/G/T, sprinkled or uniform IUPAC, gaps, lower case, "
                "lengths not divisible by 3); non-trivial = the sequence contains a non-A/C/G/T symbol",
    },
    "C16": {
        "extra_imports": ["Gofasta.Lemmas.Refusals"],
        "extra_theorems": ["Gofasta.Lemmas.Refusals.trailing_header_refused", "Gofasta.Props.C16.last_record_checked", "Gofasta.Props.C16.old_finish_dropped_last", "Gofasta.Props.C16.finish_eq_old"],
        "cli": True,
        "streams": {"C16": (3000, 60000), "C16fuzz": (0, 40)},
        "thorough_seeds": 3,
        "shrink": True,
        "rule": "half: valid alignments (1-8 records, widths 1-120, 17 symbols, mixed case, descriptions with spaces/tabs/leading blanks) under a "
                "random layout (per-record line widths, LF/CRLF, final newline or not) with the expected records known; half: the same files under 1-2 "
                "structured corruptions (delete/duplicate/blank/CR-only line, header without ID, blank first line, non-IUPAC byte, shortened/lengthened row in any "
                "record, no leading header, empty, only headers, empty last record, garbage line); all five readers run in-process on the same bytes with "
                "panic recovery and a time-out; non-trivial = corrupted, multi-record or CRLF; distinct = distinct byte stream",
    },
    "C06": {
        "extra_imports": ["Gofasta.Lemmas.FanoutCommands", "Gofasta.Lemmas.FanoutProofs", "Gofasta.Props.ColsClosest", "Gofasta.Props.Cli", "Gofasta.Lemmas.ClosestOrder"],
        "extra_theorems": ["Gofasta.Lemmas.FanoutCommands.closest_every_schedule", "Gofasta.Lemmas.FanoutCommands.closestN_every_schedule", "Gofasta.Lemmas.FanoutCommands.runC06_model", "Gofasta.Lemmas.Fanout.fanout_result_eq", "Gofasta.Lemmas.Fanout.fanout_maximal_run", "Gofasta.Props.Cols.closest_append", "Gofasta.Props.Cols.snp_col", "Gofasta.Props.Cols.raw_col", "Gofasta.Props.Cols.tn93_col", "Gofasta.Props.Cli.closest_defaults", "Gofasta.Props.Cli.wiring", "Gofasta.Lemmas.ClosestOrder.topK_spec_on", "Gofasta.Lemmas.ClosestOrder.hitLt_swoOn_nat", "Gofasta.Lemmas.ClosestOrder.hitLt_swoOn_rat",
                           "Gofasta.Lemmas.ClosestOrder.closestN_exact", "Gofasta.Lemmas.ClosestOrder.closest_exact", "Gofasta.Lemmas.ClosestOrder.closestN_exact_characterised",
                           "Gofasta.Lemmas.ClosestOrder.closestN_exact_eq_spec", "Gofasta.Lemmas.ClosestOrder.hitLt_not_swo"],
        "cli": True,
        "streams": {"C06": (600, 10000)},
        "thorough_seeds": 3,
        "shrink": True,
        "rule": "1-6 queries, 1-40 targets, width 4-60, built to force ties: exact duplicates, copies with the same distance to query 0 but lower "
                "completeness (IUPAC codes containing the original base), all-N/-/? targets (undefined raw/tn93 distance) incl. at the first position, "
                "heavily ambiguous targets; measures raw/snp/tn93; plain, -n K (1, n-1, n, n+3, random), --table, -d (an occurring distance for raw/snp, "
                ">=1e-6 away from every occurring distance for tn93), -d alone, threads 0/1/2/4/16; closest.Closest/ClosestN in-process; "
                "non-trivial = the target set contains a constructed tie or an undefined distance",
    },
    "C07": {
        "extra_imports": ["Gofasta.Props.ColsClosest"],
        "extra_theorems": ["Gofasta.Props.Cols.snp_col", "Gofasta.Props.Cols.raw_col", "Gofasta.Props.Cols.tn93_col", "Gofasta.Props.Cols.snpCount_cons", "Gofasta.Props.Cols.rawCounts_cons", "Gofasta.Props.Cols.tnCounts_cons"],
        "cli": True,
        "streams": {"C07": (400, 8000)},
        "thorough_seeds": 3,
        "shrink": True,
        "rule": "as C06 with a third of the targets uniform over all 17 symbols in mixed case; every query/target distance is read from "
                "`closest --table -n <all>` for raw, snp and tn93 and compared with the definition (snp exact, raw as the exact 9-decimal rounding of n/d, "
                "tn93 within 1e-9 of the same expression evaluated on the definitional counts); non-trivial as C06",
    },
    "C10": {
        "extra_imports": ["Gofasta.Props.ColsUpdown"],
        "extra_theorems": ["Gofasta.Props.Cols.updown_append"],
        "cli": True,
        "streams": {"C10": (600, 10000)},
        "thorough_seeds": 3,
        "shrink": True,
        "rule": "reference A/C/G/T (1 in 8 with ambiguity codes), width 1-200, 1-20 rows with SNPs and ambiguity tracts placed at the start, at the end, "
                "of length 1, two tracts one base apart, everything ambiguous, several random tracts; updown.List in-process under random FASTA layouts; "
                "non-trivial = some row has a non-A/C/G/T column",
    },
    "C04": {
        "extra_imports": ["Gofasta.Lemmas.GffRowOrder", "Gofasta.Props.Pipes", "Gofasta.Props.ColsVariants", "Gofasta.Props.Cli", "Gofasta.Lemmas.VariantsOrder"],
        "extra_theorems": ["Gofasta.Lemmas.GffRowOrder.regionFromGFF_any_order", "Gofasta.Lemmas.GffRowOrder.regionFromGFF_reverse", "Gofasta.Props.Pipes.pools_have_workers", "Gofasta.Props.Cols.nucs_append", "Gofasta.Props.Cols.aas_append", "Gofasta.Props.Cli.variant_defaults", "Gofasta.Props.Cli.wiring", "Gofasta.Lemmas.VariantsOrder.variantLt_swo", "Gofasta.Lemmas.VariantsOrder.tied_variantLt", "Gofasta.Lemmas.VariantsOrder.indels_sort_eq", "Gofasta.Lemmas.VariantsOrder.specAll_no_del0", "Gofasta.Lemmas.VariantsOrder.adj_sort_eq_sort_all_iff", "Gofasta.Lemmas.VariantsOrder.model_eq", "Gofasta.Lemmas.VariantsOrder.old_variants_list_eq_iff", "Gofasta.Lemmas.VariantsOrder.dedupRun_sorted", "Gofasta.Lemmas.VariantsOrder.run_sort_eq_sort_all", "Gofasta.Lemmas.VariantsOrder.variants_nodup", "Gofasta.Lemmas.VariantsOrder.variants_sorted", "Gofasta.Lemmas.VariantsOrder.old_eq_new_iff", "Gofasta.Lemmas.VariantsOrder.variants_list_eq_of_nodup", "Gofasta.Lemmas.VariantsOrder.variants_list_eq", "Gofasta.Lemmas.VariantsOrder.variants_list_eq_of_le_one", "Gofasta.Lemmas.VariantsOrder.dedupAll_variants_eq", "Gofasta.Lemmas.VariantsOrder.variants_list_eq_iff_nodup", "Gofasta.Lemmas.VariantsOrder.cx_fixed", "Gofasta.Lemmas.VariantsOrder.cx2_fixed", "Gofasta.Lemmas.VariantsOrder.old_dedup_differs", "Gofasta.Lemmas.VariantsOrder.old_cx_differs", "Gofasta.Lemmas.VariantsOrder.cx_wellformed"],
        "cli": True,
        "streams": {"C04": (400, 6000)},
        "thorough_seeds": 3,
        "rule": "genomes 30-160 nt; 0-6 coding features: forward/reverse, 1-3 segments (abutting, overlapping by one base, apart), codon_start 1-3, a nested gene "
                "sharing a start; GenBank (all five location shapes) or GFF3 (conformant phases; unnamed parent CDS with named mature-peptide children leaving "
                "gaps; rows without ID); 1-6 queries with A/C/G/T and IUPAC substitutions, deletions incl. at both ends, insertions (reference-gap columns) "
                "carried wholly/partly/not at all; reference inside the MSA, first on 'stdin', or taken from the annotation; --append-snps on/off; "
                "variants.Variants in-process; non-trivial = at least one coding feature or a gapped reference row",
    },
    "C05": {
        "extra_imports": ["Gofasta.Props.ColsSam", "Gofasta.Lemmas.SamIndels"],
        "extra_theorems": ["Gofasta.Props.Cols.sam_skip", "Gofasta.Lemmas.SamIndels.sam_ins", "Gofasta.Lemmas.SamIndels.sam_del", "Gofasta.Lemmas.SamIndels.sam_del_mem", "Gofasta.Lemmas.SamIndels.single_ins_op_exact", "Gofasta.Lemmas.SamIndels.single_del_op", "Gofasta.Lemmas.SamIndels.ins_spec_all", "Gofasta.Lemmas.SamIndels.del_spec_all"],
        "cli": True,
        "streams": {"C05": (500, 8000)},
        "thorough_seeds": 3,
        "rule": "as C04 with 1-5 deletions per query (touching either end), 0-6 insertion sites incl. before base 1 and after the last base, queries carrying "
                "all / a left- or right-aligned part / none of each insertion block; half the cases are the metamorphic relation on the real code: the same "
                "alignment with 1-5 extra both-gap column blocks injected must give byte-identical output",
    },
    "C13": {
        "cli": True,
        "extra_imports": ["Gofasta.Props.Cli", "Gofasta.Lemmas.AggCount"],
        "extra_theorems": ["Gofasta.Props.Cli.variant_defaults", "Gofasta.Props.Cli.wiring", "Gofasta.Lemmas.AggCount.agg_count", "Gofasta.Lemmas.AggCount.agg_count_fold", "Gofasta.Lemmas.AggCount.mem_aggCounts", "Gofasta.Lemmas.AggCount.aggCounts_keys_nodup", "Gofasta.Lemmas.AggCount.agg_count_is_sequences", "Gofasta.Lemmas.AggCount.agg_count_ge_sequences", "Gofasta.Lemmas.AggCount.keyInj_true_model", "Gofasta.Lemmas.AggCount.keyInj_model", "Gofasta.Lemmas.AggCount.agg_count_is_sequences_model_true", "Gofasta.Lemmas.AggCount.agg_count_is_sequences_model", "Gofasta.Lemmas.AggCount.cxb_count_not_sequences", "Gofasta.Lemmas.AggCount.cxc_same_text_two_keys", "Gofasta.Lemmas.AggCount.agg_each_once", "Gofasta.Lemmas.AggCount.agg_rep_is_seq_text", "Gofasta.Lemmas.AggCount.aggTable_nodup", "Gofasta.Lemmas.AggCount.format_erase", "Gofasta.Lemmas.AggCount.mem_aggEntries", "Gofasta.Lemmas.AggCount.cross_mul_iff", "Gofasta.Lemmas.AggCount.agg_threshold", "Gofasta.Lemmas.AggCount.agg_threshold_equal_kept", "Gofasta.Lemmas.AggCount.agg_sorted", "Gofasta.Lemmas.AggCount.agg_perm", "Gofasta.Lemmas.AggCount.mem_aggTable", "Gofasta.Lemmas.AggCount.variants_aggregate_spec", "Gofasta.Lemmas.AggCount.variants_aggregate_spec_rat", "Gofasta.Lemmas.AggCount.variants_aggregate_spec_model"],
        "streams": {"C13": (600, 8000)},
        "thorough_seeds": 3,
        "rule": "a third snps alignments (1-30 rows, width <= 40), two thirds variants cases; thresholds 0, 1, k/n to three decimals, random percent; half the "
                "cases compare --aggregate with the model and spec, half re-derive the table from the real per-sequence output of the same input",
    },
    "C14": {
        "extra_imports": ["Gofasta.Lemmas.GffRowOrder", "Gofasta.Lemmas.RegionEquiv", "Gofasta.Lemmas.GffRoundTrip", "Gofasta.Lemmas.GbRoundTrip", "Gofasta.Lemmas.FromBytes", "Gofasta.Lemmas.FromBytesGb"],
        "extra_theorems": ["Gofasta.Lemmas.GffRowOrder.sortRows_eq", "Gofasta.Lemmas.GffRowOrder.sortRows_of_sorted", "Gofasta.Lemmas.GffRowOrder.sortRows_perm", "Gofasta.Lemmas.GffRowOrder.regionFromGFF_any_order", "Gofasta.Lemmas.GffRowOrder.regionFromGFF_reverse", "Gofasta.Lemmas.GffRowOrder.regionsFromGFF_any_order", "Gofasta.Lemmas.GffRowOrder.regionsFromGFF_blocks_any_order", "Gofasta.Lemmas.GffRowOrder.old_order_dependent", "Gofasta.Lemmas.GffRowOrder.new_two_orders", "Gofasta.Lemmas.GffRowOrder.same_start_order_dependent", "Gofasta.Lemmas.RegionEquiv.genbank_region'", "Gofasta.Lemmas.RegionEquiv.genbank_region", "Gofasta.Lemmas.RegionEquiv.gff_region", "Gofasta.Lemmas.RegionEquiv.region_equiv", "Gofasta.Lemmas.RegionEquiv.fields_equiv", "Gofasta.Lemmas.RegionEquiv.oriented_of_asc", "Gofasta.Lemmas.RegionEquiv.faithful_long", "Gofasta.Lemmas.RegionEquiv.oriented_of_asc_faithful", "Gofasta.Lemmas.RegionEquiv.genbank_annotation", "Gofasta.Lemmas.RegionEquiv.gff_annotation", "Gofasta.Lemmas.RegionEquiv.annotation_equiv", "Gofasta.Lemmas.RegionEquiv.codes_perm", "Gofasta.Lemmas.RegionEquiv.variants_perm", "Gofasta.Lemmas.RegionEquiv.variants_equiv", "Gofasta.Lemmas.RegionEquiv.variants_equiv_asc", "Gofasta.Lemmas.RegionEquiv.both_succeed", "Gofasta.Lemmas.RegionEquiv.annotation_equal_of_sorted", "Gofasta.Lemmas.RegionEquiv.getAAsPair_congr", "Gofasta.Lemmas.RegionEquiv.aas_equiv_weak", "Gofasta.Lemmas.GffRT.parseFeature_renderRow", "Gofasta.Lemmas.GffRT.scanLines_render", "Gofasta.Lemmas.GffRT.gff_roundtrip", "Gofasta.Lemmas.GffRT.gff_roundtrip_canonical", "Gofasta.Lemmas.GffRT.toFeature_raw_iff", "Gofasta.Lemmas.GffRT.gff_roundtrip_exact", "Gofasta.Lemmas.GffRT.gff_roundtrip_escaped_differs", "Gofasta.Lemmas.GffRT.long_line_reported", "Gofasta.Lemmas.GffRT.long_line_never_ok", "Gofasta.Lemmas.GffRT.short_lines_unchanged", "Gofasta.Lemmas.GbRT.gb_long_line_reported", "Gofasta.Lemmas.GbRT.gb_short_lines_unchanged", "Gofasta.Lemmas.GffRT.finding_escape_not_decoded", "Gofasta.Lemmas.GffRT.finding_hyphen_in_seqid", "Gofasta.Lemmas.GffRT.finding_fasta_contigs", "Gofasta.Lemmas.GffRT.sample_roundtrip", "Gofasta.Lemmas.GbRT.getPositions_render", "Gofasta.Lemmas.GbRT.parse_render", "Gofasta.Lemmas.GbRT.render_parse", "Gofasta.Lemmas.GbRT.getPositions_of_parse", "Gofasta.Lemmas.GbRT.unNest_fuel", "Gofasta.Lemmas.GbRT.atoi_forget", "Gofasta.Lemmas.GbRT.parseFeatures_render", "Gofasta.Lemmas.GbRT.gb_roundtrip", "Gofasta.Lemmas.FromBytes.gffRowsOfText_renderText", "Gofasta.Lemmas.FromBytes.gff_annotation_from_bytes", "Gofasta.Lemmas.FromBytes.annotation_equiv_from_bytes", "Gofasta.Lemmas.FromBytes.variants_equiv_from_bytes", "Gofasta.Lemmas.FromBytes.both_succeed_from_bytes", "Gofasta.Lemmas.FromBytes.fasta_section_agrees", "Gofasta.Lemmas.FromBytes.gff_fasta_from_bytes", "Gofasta.Lemmas.FromBytesGb.features_from_text", "Gofasta.Lemmas.FromBytesGb.regions_from_text", "Gofasta.Lemmas.FromBytesGb.region_of_feat", "Gofasta.Lemmas.FromBytesGb.isReverse_of_positions", "Gofasta.Lemmas.FromBytesGb.gbFeaturesOfText_render_of", "Gofasta.Lemmas.FromBytesGb.gbFeaturesOfText_render", "Gofasta.Lemmas.FromBytesGb.genbank_annotation_from_bytes", "Gofasta.Lemmas.FromBytesGb.annotation_equiv_from_two_files", "Gofasta.Lemmas.FromBytesGb.variants_equiv_from_two_files", "Gofasta.Lemmas.FromBytesGb.both_succeed_from_two_files", "Gofasta.Lemmas.FromBytesGb.annotation_equal_from_two_files", "Gofasta.Lemmas.FromBytesGb.exFile_ok"],
        "cli": True,
        "streams": {"C14": (500, 8000), "C14gff": (600, 6000), "C14gb": (600, 6000), "C14gfffuzz": (0, 30), "C14gbfuzz": (0, 30)},
        "thorough_seeds": 3,
        "rule": "1-5 genes expressible in both formats (all five location shapes, 1-3 segments with lengths not multiples of 3, codon_start 1-3, conformant "
                "non-zero continuation phases); a third of the cases run the GenBank form, a third the GFF form (both against model and spec), a third "
                "compare the two real runs as per-row multisets",
    },
    "C01": {
        "cli": True,
        "extra_imports": ["Gofasta.Props.ColsSam", "Gofasta.Lemmas.SamWalk", "Gofasta.Lemmas.SamFlatten", "Gofasta.Lemmas.SamRoundTrip", "Gofasta.Lemmas.FromBytes"],
        "extra_theorems": ["Gofasta.Props.Cols.sam_skip", "Gofasta.Lemmas.walk_cov", "Gofasta.Lemmas.walk_row", "Gofasta.Lemmas.covList_ge", "Gofasta.Lemmas.covList_lt",
                           "Gofasta.Lemmas.single_record_row", "Gofasta.Lemmas.swapNs_starRow", "Gofasta.Lemmas.swapGaps_starRow",
                           "Gofasta.Lemmas.flatten_column", "Gofasta.Lemmas.seqFromBlock_starRow", "Gofasta.Lemmas.query_row",
                           "Gofasta.Lemmas.toMultiAlign_total",
                           "Gofasta.Lemmas.SamRT.sam_roundtrip", "Gofasta.Lemmas.SamRT.readSam_render", "Gofasta.Lemmas.SamRT.parseCigar_render", "Gofasta.Lemmas.SamRT.parseUint0_digitsOf", "Gofasta.Lemmas.SamRT.parseRecord_render", "Gofasta.Lemmas.SamRT.header_parse", "Gofasta.Lemmas.SamRT.readSam_unterminated", "Gofasta.Lemmas.SamRT.cigarIsValid_plain", "Gofasta.Lemmas.SamRT.cigarIsValid_clipped", "Gofasta.Lemmas.SamRT.toSamRec_expected", "Gofasta.Lemmas.FromBytes.samRecsOfText_render", "Gofasta.Lemmas.FromBytes.wf_iff_recFit", "Gofasta.Lemmas.FromBytes.toMultiAlign_from_bytes", "Gofasta.Lemmas.FromBytes.unterminated_last_read", "Gofasta.Lemmas.FromBytes.unterminated_loses_last"],
        "streams": {"C01": (500, 10000), "C01sam": (600, 6000), "C01samfuzz": (0, 30)},
        "thorough_seeds": 3,
        "rule": "reference 10-120 nt; 1-6 queries of 1-3 records (disjoint or overlapping; agreeing or conflicting templates); CIGARs from a grammar over all nine "
                "operators with leading/trailing H and S, leading/trailing D, N skips, adjacent I/D, =/X, P; records aligning no base at all; unmapped (0x4), "
                "secondary (0x100) and mixed-flag records interleaved under the same or another name; --pad, --start/--end (either or both), --wrap "
                "(1, 7, 60, L, L+2), threads 1/2/4/16; sam.ToMultiAlign in-process; non-trivial = some CIGAR has an operator other than M",
    },
    "C02": {
        "cli": True,
        "extra_imports": ["Gofasta.Lemmas.TopaDirFixed", "Gofasta.Lemmas.FanoutCommands", "Gofasta.Props.ColsSam", "Gofasta.Lemmas.PairSingle", "Gofasta.Lemmas.PairSpec", "Gofasta.Lemmas.PairMulti", "Gofasta.Lemmas.PairSkipIns", "Gofasta.Lemmas.FromBytes"],
        "extra_theorems": ["Gofasta.Lemmas.TopaDirFixed.topa_dir_fixed_every_schedule", "Gofasta.Lemmas.TopaDirFixed.topa_dir_fixed_model", "Gofasta.Lemmas.FanoutCommands.topa_stdout_every_schedule", "Gofasta.Lemmas.FanoutCommands.topa_dir_every_schedule", "Gofasta.Props.Cols.sam_skip", "Gofasta.Lemmas.FromBytes.toPairAlign_from_bytes", "Gofasta.Lemmas.FromBytes.toPairAlign_keepIns_from_bytes", "Gofasta.Lemmas.PairSkipIns.toPairAlign_spec", "Gofasta.Lemmas.PairSkipIns.pairOfBlock_skipIns", "Gofasta.Lemmas.PairSkipIns.walkWithRef_noIns_query", "Gofasta.Lemmas.PairMulti.blockToSeqPair_eq_specPair", "Gofasta.Lemmas.PairMulti.multi_ref_lossless", "Gofasta.Lemmas.PairMulti.multi_lengths",
                           "Gofasta.Lemmas.PairMulti.multi_gap_count", "Gofasta.Lemmas.PairMulti.multi_skip_insertions", "Gofasta.Lemmas.PairMulti.toPairAlign_keepIns_spec",
                           "Gofasta.Lemmas.PairSpec.specPair_lossless", "Gofasta.Lemmas.PairSpec.specPair_skip_insertions",
                           "Gofasta.Lemmas.PairSpec.specPair_lengths", "Gofasta.Lemmas.blockToSeqPair_single", "Gofasta.Lemmas.single_ref_lossless", "Gofasta.Lemmas.single_lengths",
                           "Gofasta.Lemmas.single_gap_count", "Gofasta.Lemmas.walk_keepRefCols", "Gofasta.Lemmas.single_skip_insertions"],
        "streams": {"C02": (500, 10000)},
        "thorough_seeds": 3,
        "rule": "as C01 with every query's records on disjoint reference intervals (non-conflicting), 0-5 insertions per record incl. after the last aligned base, "
                "adjacent to D; reference file with IUPAC codes / lower case now and then; --skip-insertions, --omit-reference, --start/--end, --wrap, threads; "
                "sam.ToPairAlign in-process in directory mode, files read back in query order",
    },
    "C11": {
        "cli": True,
        "extra_imports": ["Gofasta.Lemmas.FastaWrite", "Gofasta.Lemmas.SamVarPipeline"],
        "extra_theorems": ["Gofasta.Lemmas.FastaWrite.written_reads_back", "Gofasta.Lemmas.FastaWrite.file_bytes",
                           "Gofasta.Lemmas.SamVarPipeline.samVarCommand_eq", "Gofasta.Lemmas.SamVarPipeline.varCommand_pair", "Gofasta.Lemmas.SamVarPipeline.samVarOn_rows_are_variants_rows", "Gofasta.Lemmas.SamVarPipeline.samVarOn_eq_variants_lists", "Gofasta.Lemmas.SamVarPipeline.samVarOn_aggregate", "Gofasta.Lemmas.SamVarPipeline.pair_bytes", "Gofasta.Lemmas.SamVarPipeline.toPairAlign_files", "Gofasta.Lemmas.SamVarPipeline.pairText_reads_back", "Gofasta.Lemmas.SamVarPipeline.caller_on_read_back", "Gofasta.Lemmas.SamVarPipeline.sam_variants_is_variants_on_pairs", "Gofasta.Lemmas.SamVarPipeline.sam_variants_rows", "Gofasta.Lemmas.SamVarPipeline.samVarCommand_rows", "Gofasta.Lemmas.SamVarPipeline.pv_ok"],
        "streams": {"C11": (450, 8000)},
        "thorough_seeds": 3,
        "rule": "SAM files as C02 (non-conflicting records, 0-5 insertions) with a GenBank or GFF annotation of the same reference, reference from file or from "
                "the annotation, --append-snps, windows; a third: sam.Variants against model and spec; a third: sam.Variants vs variants.Variants on every file "
                "written by the real sam.ToPairAlign; a third (queries without insertions): vs variants.Variants on reference + the real toMultiAlign --pad rows",
    },
    "C15": {
        "extra_imports": ["Gofasta.Props.ColsSam", "Gofasta.Props.ColsVariants", "Gofasta.Props.Cli", "Gofasta.Lemmas.FastaWrite"],
        "extra_theorems": ["Gofasta.Props.Cols.checkArgs_translated", "Gofasta.Props.Cols.window_filter", "Gofasta.Props.Cols.agg_window_filter", "Gofasta.Props.Cli.window_defaults", "Gofasta.Props.Cli.wiring", "Gofasta.Props.Cli.no_option_twice", "Gofasta.Lemmas.FastaWrite.written_reads_back", "Gofasta.Lemmas.FastaWrite.file_bytes"],
        "streams": {"C15v": (300, 5000), "C15toma": (300, 5000), "C15topa": (300, 5000), "C15sv": (300, 5000)},
        "thorough_seeds": 3,
        "cli": True,
        "rule": "variants: windows (start alone, end alone, both) against model/spec, and file vs 'stdin' on the real code; toMultiAlign: every window against the "
                "slice specification, legacy --trim/--trimstart/--trimend vs --start/--end through the gofasta binary, --wrap w (1..L+2) un-wrapped vs unwrapped; "
                "toPairAlign: windows through the gapped reference row, --wrap; non-trivial = a window, a wrap width or a relation is exercised",
    },
    "C08": {
        "cli": True,
        "extra_imports": ["Gofasta.Lemmas.FanoutCommands", "Gofasta.Props.Cli", "Gofasta.Lemmas.Balance", "Gofasta.Lemmas.PushBins", "Gofasta.Lemmas.WhichWaySpec", "Gofasta.Lemmas.TopRankingSpec"],
        "extra_theorems": ["Gofasta.Lemmas.FanoutCommands.topranking_every_schedule", "Gofasta.Lemmas.FanoutCommands.topRankingQuery_eq", "Gofasta.Lemmas.FanoutCommands.runC08_model", "Gofasta.Props.Cli.topranking_defaults", "Gofasta.Props.Cli.wiring", "Gofasta.Lemmas.PushBins.pushBin_eq", "Gofasta.Lemmas.PushBins.pushMap_mem_keys_iff", "Gofasta.Lemmas.PushBins.topRankingQuery_push", "Gofasta.Lemmas.WhichWaySpec.whichWayTable_spec", "Gofasta.Lemmas.WhichWaySpec.whichWay_getLine", "Gofasta.Lemmas.WhichWaySpec.topRankingQuery_getLine", "Gofasta.Lemmas.fillLoop_inv", "Gofasta.Lemmas.fillLoop_sum_le", "Gofasta.Lemmas.fillLoop_mono",
                           "Gofasta.Lemmas.fillLoop_complete", "Gofasta.Lemmas.balance_fill_spec", "Gofasta.Lemmas.fillLoop_even",
                           "Gofasta.Lemmas.balance_even",
                           "Gofasta.Lemmas.TopRankingSpec.model_passes_checker", "Gofasta.Lemmas.TopRankingSpec.model_passes_checker_args", "Gofasta.Lemmas.TopRankingSpec.checkBins_binsOf", "Gofasta.Lemmas.TopRankingSpec.checkBins_eq", "Gofasta.Lemmas.TopRankingSpec.prefixOk", "Gofasta.Lemmas.TopRankingSpec.distOk", "Gofasta.Lemmas.TopRankingSpec.size_facts", "Gofasta.Lemmas.TopRankingSpec.sumOk_of", "Gofasta.Lemmas.TopRankingSpec.nofillOk_of", "Gofasta.Lemmas.TopRankingSpec.atLeast_of", "Gofasta.Lemmas.TopRankingSpec.fillOk_of", "Gofasta.Lemmas.TopRankingSpec.evenOk_of", "Gofasta.Lemmas.TopRankingSpec.pushOk", "Gofasta.Lemmas.TopRankingSpec.sortCands_eq", "Gofasta.Lemmas.TopRankingSpec.topKG_eq", "Gofasta.Lemmas.TopRankingSpec.binsOf_nopush", "Gofasta.Lemmas.TopRankingSpec.binsOf_push", "Gofasta.Lemmas.TopRankingSpec.balance_bounds", "Gofasta.Lemmas.TopRankingSpec.balance_nofill", "Gofasta.Lemmas.TopRankingSpec.balance_fill"],
        "streams": {"C08": (600, 10000)},
        "thorough_seeds": 3,
        "shrink": True,
        "rule": "A/C/G/T references 6-60 wide; 1-5 queries and 1-30 targets built from a small SNP pool (shared SNPs, two alternative bases at one site, "
                "duplicates, copies of a query) with single ambiguous sites, tracts and sprinkled codes so both thresholds bind; option sets: --size-total, "
                "--size-up/-down/-side/-same (incl. -1), + --dist-all, --dist-all alone, --dist-up/-down/-side, --dist-push 1-3, mixed size+dist, no option at all; "
                "--no-fill, --threshold-pair 0/0.1/0.25/0.5/1, --threshold-target 0/2/5/10000, --ignore 0-3 ids, --table; updown.TopRanking in-process (fasta/fasta); "
                "the spec verdict is relational (bin membership, distances, prefix order, size constraints, evenness)",
    },
    "C09": {
        "cli": True,
        "extra_imports": ["Gofasta.Lemmas.CsvRoundTrip", "Gofasta.Lemmas.CsvFasta"],
        "extra_theorems": ["Gofasta.Lemmas.CsvRT.csv_roundtrip", "Gofasta.Lemmas.CsvRT.run_id_comma", "Gofasta.Lemmas.CsvRT.atoi_digitsOf",
                           "Gofasta.Lemmas.CsvRT.ambArr_render", "Gofasta.Lemmas.CsvRT.splitB_joinB",
                           "Gofasta.Lemmas.CsvFasta.pairUp_flatAmbs", "Gofasta.Lemmas.CsvFasta.lineOfRow_expected", "Gofasta.Lemmas.CsvFasta.forgetCount_eq_iff", "Gofasta.Lemmas.CsvFasta.coreFields_eq_iff", "Gofasta.Lemmas.CsvFasta.whichWay_query", "Gofasta.Lemmas.CsvFasta.topRankingQuery_core", "Gofasta.Lemmas.CsvFasta.topRankingAll_core", "Gofasta.Lemmas.CsvFasta.trRun_core", "Gofasta.Lemmas.CsvFasta.viaCsv_eq", "Gofasta.Lemmas.CsvFasta.four_routes", "Gofasta.Lemmas.CsvFasta.four_routes_all", "Gofasta.Lemmas.CsvFasta.routes_agree", "Gofasta.Lemmas.CsvFasta.dec_symOk", "Gofasta.Lemmas.CsvFasta.getLine_rowOk", "Gofasta.Lemmas.CsvFasta.four_routes_fasta"],
        "streams": {"C09": (400, 6000), "C09csv": (600, 8000)},
        "thorough_seeds": 3,
        "rule": "as C08 (1-5 queries: m > 1 in about 80% of cases; 1 case in 6 with IDs holding a double quote and/or a comma); the CSV forms are produced by the "
                "real updown.List; the real TopRanking is run in all four csv/fasta combinations and the four outputs must be byte-identical and not an error. "
                "Stream C09csv: the CSV text layer alone - the bytes of the real updown.List against the rendering model and, read back by both real readers "
                "(exported under the verif tag), against the rows themselves; 16 structural/quoting/number corruptions of such files against the Lean model of "
                "encoding/csv + getAmbArr + Atoi (ok / error / panic)",
    },
    "C12": {
        "extra_imports": ["Gofasta.Lemmas.TopaDirFixed", "Gofasta.Lemmas.FanoutCommands", "Gofasta.Lemmas.FanoutProofs", "Gofasta.Lemmas.SchedCommands", "Gofasta.Lemmas.AggVariants", "Gofasta.Props.Pipes", "Gofasta.Lemmas.SchedProofs", "Gofasta.Lemmas.SchedChainProofs"],
        "extra_theorems": ["Gofasta.Lemmas.TopaDirFixed.topa_dir_fixed_every_schedule", "Gofasta.Lemmas.TopaDirFixed.topa_dir_fixed_deterministic", "Gofasta.Lemmas.TopaDirFixed.topa_dir_fixed_model", "Gofasta.Lemmas.TopaDirFixed.chain_dir_writer_every_schedule", "Gofasta.Lemmas.TopaDirFixed.chain_dir_writer_deterministic", "Gofasta.Lemmas.FanoutCommands.closest_every_schedule", "Gofasta.Lemmas.FanoutCommands.closestN_every_schedule", "Gofasta.Lemmas.FanoutCommands.topranking_every_schedule", "Gofasta.Lemmas.FanoutCommands.topa_stdout_every_schedule", "Gofasta.Lemmas.FanoutCommands.topa_dir_every_schedule", "Gofasta.Lemmas.FanoutCommands.topa_dir_last_arrival", "Gofasta.Lemmas.FanoutCommands.closest_maximal_run", "Gofasta.Lemmas.FanoutCommands.closestN_maximal_run", "Gofasta.Lemmas.FanoutCommands.topranking_maximal_run", "Gofasta.Lemmas.Fanout.fanout_in_order", "Gofasta.Lemmas.Fanout.fanout_lockstep", "Gofasta.Lemmas.Fanout.fanout_slot", "Gofasta.Lemmas.Fanout.fanout_result", "Gofasta.Lemmas.Fanout.fanout_result_eq", "Gofasta.Lemmas.Fanout.fanout_no_deadlock", "Gofasta.Lemmas.Fanout.no_panic", "Gofasta.Lemmas.Fanout.buffer_bounded", "Gofasta.Lemmas.Fanout.fanout_terminates", "Gofasta.Lemmas.Fanout.fanout_maximal_run", "Gofasta.Lemmas.Fanout.runSchedule_returns", "Gofasta.Lemmas.Fanout.Demo.stepTwoForwarders_schedule_dependent", "Gofasta.Lemmas.SchedCommands.text_writer_every_schedule", "Gofasta.Lemmas.SchedCommands.chain_text_writer_every_schedule", "Gofasta.Lemmas.SchedCommands.snps_every_schedule", "Gofasta.Lemmas.SchedCommands.snps_aggregate_every_schedule", "Gofasta.Lemmas.SchedCommands.updown_list_every_schedule", "Gofasta.Lemmas.SchedCommands.toma_every_schedule", "Gofasta.Lemmas.SchedCommands.variants_every_schedule", "Gofasta.Lemmas.SchedCommands.variants_aggregate_every_schedule", "Gofasta.Lemmas.SchedCommands.variants_aggregate_model_every_schedule", "Gofasta.Lemmas.SchedCommands.sam_variants_every_schedule", "Gofasta.Lemmas.SchedCommands.sam_variants_command_every_schedule", "Gofasta.Lemmas.SchedCommands.sam_variants_aggregate_every_schedule", "Gofasta.Lemmas.SchedCommands.sam_variants_every_schedule_rows", "Gofasta.Lemmas.SchedCommands.snps_maximal_run", "Gofasta.Lemmas.SchedCommands.snps_aggregate_maximal_run", "Gofasta.Lemmas.SchedCommands.updown_list_maximal_run", "Gofasta.Lemmas.SchedCommands.toma_maximal_run", "Gofasta.Lemmas.SchedCommands.variants_maximal_run", "Gofasta.Lemmas.SchedCommands.sam_variants_maximal_run", "Gofasta.Lemmas.SchedChain.reach_inv", "Gofasta.Lemmas.SchedChain.chain_success_means_complete", "Gofasta.Lemmas.SchedChain.chain_reorder_writer_in_order", "Gofasta.Lemmas.SchedChain.chain_commutative_writer", "Gofasta.Lemmas.SchedChain.chain_no_deadlock", "Gofasta.Lemmas.SchedChain.chain_terminates", "Gofasta.Lemmas.SchedChain.chain_maximal_run_returned", "Gofasta.Lemmas.SchedChain.chain_error_reported", "Gofasta.Lemmas.SchedChain.chain_maximal_run_error", "Gofasta.Lemmas.SchedChain.chain_error_has_source", "Gofasta.Lemmas.SchedChain.chain_no_spurious_error", "Gofasta.Lemmas.SchedChain.chain_maximal_run_success", "Gofasta.Lemmas.SchedChain.chain_no_panic", "Gofasta.Lemmas.SchedChain.chain_no_send_on_closed", "Gofasta.Lemmas.SchedChain.chain_no_sender_on_closed", "Gofasta.Lemmas.SchedChain.chain_buffers_bounded", "Gofasta.Lemmas.SchedChain.chain_closed_prefix", "Gofasta.Lemmas.SchedChain.runSchedule_returns", "Gofasta.Lemmas.SchedChain.OnePool.chain_one_pool_agrees", "Gofasta.Lemmas.SchedChain.OnePool.chain_one_pool_outcomes",
                           "Gofasta.Lemmas.Sched.reach_inv", "Gofasta.Lemmas.Sched.success_means_complete", "Gofasta.Lemmas.Sched.reorder_writer_in_order", "Gofasta.Lemmas.Sched.commutative_writer", "Gofasta.Lemmas.Sched.counting_writer", "Gofasta.Lemmas.Sched.no_deadlock", "Gofasta.Lemmas.Sched.maximal_run_returned", "Gofasta.Lemmas.Sched.terminates", "Gofasta.Lemmas.Sched.run_length_le", "Gofasta.Lemmas.Sched.runSchedule_returns", "Gofasta.Lemmas.Sched.error_reported", "Gofasta.Lemmas.Sched.maximal_run_error", "Gofasta.Lemmas.Sched.error_has_source", "Gofasta.Lemmas.Sched.no_spurious_error", "Gofasta.Lemmas.Sched.maximal_run_success", "Gofasta.Lemmas.Sched.no_panic", "Gofasta.Lemmas.Sched.no_send_on_closed", "Gofasta.Lemmas.Sched.close_once", "Gofasta.Lemmas.Sched.buffers_bounded",
                           "Gofasta.Props.Pipes.drivers_conform", "Gofasta.Props.Pipes.fanouts_conform", "Gofasta.Props.Pipes.pools_have_workers", "Gofasta.Props.Pipes.inner_error_arms", "Gofasta.Lemmas.AggVariants.variants_aggregate_model_deterministic", "Gofasta.Lemmas.AggVariants.variants_aggregate_any_order",
                           "Gofasta.Lemmas.AggVariants.aggLt_not_swo", "Gofasta.Lemmas.AggVariants.tie_hypothesis_needed"],
        "streams": {"C12": (112, 400), "C12sched": (400, 4000)},
        "thorough_seeds": 3,
        "cli": True,
        "race": (24, 150),
        "rule": "16 command variants (snps, snps --aggregate, variants per-sequence / --aggregate / GFF features sharing a start, sam toMultiAlign, toPairAlign to a "
                "directory and -o stdout through the binary, sam variants per-sequence / --aggregate, closest, closest -n --table, updown list, topranking size / push / csv) "
                "on inputs of 20-80 records; each case = 5 (quick) or 12 (thorough) runs of the real code with --threads in 1..16 and, since finding F-C12e, 0 and -1 (meaning one worker per processor), GOMAXPROCS in 1..16 and a fresh seed of the "
                "verif Jitter hook (sleep/yield before every worker's send); all runs must be byte-identical and none may fail; the same stream is repeated under a "
                "-race build; non-trivial = every case (each compares several schedules); tag jitter-inverted-an-order = the hook observed an order inversion; "
                "stream C12sched: snps / updown list / variants in-process on 1-300 records with a failure planted in the reader (bad symbol in record k), the workers "
                "(variants: rows wider than the annotated genome) or the writer (the write of record k fails, once or from then on) or none; the outcome (nil and every "
                "record once in input order, or an error) must equal that of the small-step model Model/Sched run under three pseudo-random schedules with the channel "
                "capacities of the regenerated driver shape",
    },
    "C18": {
        "extra_imports": ["Gofasta.Lemmas.SchedCommands", "Gofasta.Props.ColsSam", "Gofasta.Lemmas.Refusals", "Gofasta.Props.Cli", "Gofasta.Props.Pipes", "Gofasta.Lemmas.SchedProofs", "Gofasta.Lemmas.SchedChainProofs"],
        "extra_theorems": ["Gofasta.Props.Pipes.pools_have_workers", "Gofasta.Lemmas.SchedCommands.snps_width_error_reported", "Gofasta.Lemmas.SchedCommands.snps_aggregate_width_error_reported", "Gofasta.Lemmas.SchedCommands.updown_list_width_error_reported", "Gofasta.Lemmas.SchedCommands.variants_width_error_reported", "Gofasta.Lemmas.SchedCommands.variants_aggregate_width_error_reported", "Gofasta.Lemmas.SchedCommands.toma_read_error_reported", "Gofasta.Lemmas.SchedCommands.sam_variants_read_error_reported", "Gofasta.Lemmas.SchedCommands.snps_outcome", "Gofasta.Lemmas.SchedCommands.updown_list_outcome", "Gofasta.Lemmas.SchedCommands.variants_outcome", "Gofasta.Props.Cols.checkArgs_translated", "Gofasta.Lemmas.SchedChain.chain_error_reported", "Gofasta.Lemmas.SchedChain.chain_no_deadlock", "Gofasta.Lemmas.Sched.error_reported", "Gofasta.Lemmas.Sched.maximal_run_error", "Gofasta.Lemmas.Sched.no_deadlock", "Gofasta.Props.Pipes.drivers_conform", "Gofasta.Lemmas.Refusals.fails_unequal_rows", "Gofasta.Lemmas.Refusals.readFasta_unequal_rows", "Gofasta.Lemmas.Refusals.readFasta_ok_widths", "Gofasta.Lemmas.Refusals.trailing_header_refused", "Gofasta.Lemmas.Refusals.trailing_header_commands_refused", "Gofasta.Lemmas.Refusals.fails_trailing_header", "Gofasta.Lemmas.Refusals.fails_single_header", "Gofasta.Lemmas.Refusals.snpsOnText_error_iff", "Gofasta.Lemmas.Refusals.listOnText_error_iff", "Gofasta.Lemmas.Refusals.trOnText_error_iff", "Gofasta.Lemmas.Refusals.closestOnText_error_iff", "Gofasta.Lemmas.Refusals.varCommand_error_iff", "Gofasta.Lemmas.Refusals.snpsOnText_valid", "Gofasta.Lemmas.Refusals.listOnText_valid", "Gofasta.Lemmas.Refusals.trOnText_valid", "Gofasta.Lemmas.Refusals.checkArgs_none_iff", "Gofasta.Props.Cli.topranking_defaults", "Gofasta.Props.Cli.window_defaults", "Gofasta.Props.Cli.wiring"],
        "streams": {"C18": (1000, 4000)},
        "thorough_seeds": 3,
        "cli": True,
        "rule": "the first 738 cases of a run walk through the whole product command x corruption x record (first, middle, last) x input file; the rest are random. For each of 9 command lines of the gofasta binary a valid input set is built, then one corruption is applied: shortened / lengthened row or non-IUPAC "
                "symbol at the first, middle or last record of any FASTA input; missing or empty input file; empty SAM; header-less SAM (toMultiAlign); reference and "
                "alignment / query and target of different widths (both directions); two records in --reference; empty CSV; CSV with a foreign header; windows "
                "0..L, 1..L+1, L+1.., 5..4, ..0; annotation suffix .txt; topranking without any size/dist option; 1 in 12 cases is left valid and must exit 0; "
                "required: non-zero exit within 10 s",
    },
    "C19": {
        "extra_imports": ["Gofasta.Lemmas.SchedFaults", "Gofasta.Lemmas.SchedFaultsAgg", "Gofasta.Lemmas.SchedFaultsAggCode", "Gofasta.Lemmas.SchedFaultsChainHdr", "Gofasta.Lemmas.FanoutFaults", "Gofasta.Props.Pipes", "Gofasta.Lemmas.SchedProofs", "Gofasta.Lemmas.SchedChainProofs"],
        "extra_theorems": ["Gofasta.Lemmas.FanoutFaults.fanout_fault_reported", "Gofasta.Lemmas.FanoutFaults.fanout_fault_maximal_run", "Gofasta.Lemmas.FanoutFaults.fanout_fault_beyond_run_harmless", "Gofasta.Lemmas.FanoutFaults.fanout_no_spurious_error", "Gofasta.Lemmas.FanoutFaults.fanout_written_is_prefix", "Gofasta.Lemmas.FanoutFaults.closest_fault_reported", "Gofasta.Lemmas.FanoutFaults.closest_fault_beyond_run_harmless", "Gofasta.Lemmas.FanoutFaults.closest_written_is_prefix", "Gofasta.Lemmas.FanoutFaults.closest_text_model", "Gofasta.Lemmas.FanoutFaults.closestN_fault_reported", "Gofasta.Lemmas.FanoutFaults.closestN_fault_beyond_run_harmless", "Gofasta.Lemmas.FanoutFaults.closestN_written_is_prefix", "Gofasta.Lemmas.FanoutFaults.topranking_fault_reported", "Gofasta.Lemmas.FanoutFaults.topranking_fault_beyond_run_harmless", "Gofasta.Lemmas.FanoutFaults.topranking_written_is_prefix", "Gofasta.Lemmas.FanoutFaults.topranking_text_model", "Gofasta.Lemmas.FanoutFaults.w_fault_reported", "Gofasta.Lemmas.FanoutFaults.w_success_harmless", "Gofasta.Lemmas.FanoutFaults.w_nothing_before_fanin", "Gofasta.Lemmas.FanoutFaults.w_written_is_prefix", "Gofasta.Lemmas.FanoutFaults.w_error_is_write_failure", "Gofasta.Lemmas.SchedFaultsChainHdr.chain_hdr_fault_reported", "Gofasta.Lemmas.SchedFaultsChainHdr.chain_hdr_fault_beyond_run_harmless", "Gofasta.Lemmas.SchedFaultsChainHdr.chain_hdr_written_is_prefix", "Gofasta.Lemmas.SchedFaultsChainHdr.chain_header_fault_immediate", "Gofasta.Lemmas.SchedFaultsChainHdr.chain_hdr_fault_maximal_run_write_error", "Gofasta.Lemmas.SchedFaultsChainHdr.chain_agg_hdr_fault_reported", "Gofasta.Lemmas.SchedFaultsChainHdr.chain_agg_hdr_fault_beyond_run_harmless", "Gofasta.Lemmas.SchedFaultsChainHdr.chain_agg_hdr_written_is_prefix", "Gofasta.Lemmas.SchedFaultsChainHdr.chain_agg_header_fault_immediate", "Gofasta.Lemmas.SchedFaultsChainHdr.sam_variants_hdr_fault_reported", "Gofasta.Lemmas.SchedFaultsChainHdr.sam_variants_hdr_fault_beyond_run_harmless", "Gofasta.Lemmas.SchedFaultsChainHdr.sam_variants_hdr_written_is_prefix", "Gofasta.Lemmas.SchedFaultsChainHdr.sam_variants_header_fault_immediate", "Gofasta.Lemmas.SchedFaultsChainHdr.sam_variants_agg_hdr_fault_reported", "Gofasta.Lemmas.SchedFaultsChainHdr.sam_variants_agg_hdr_fault_beyond_run_harmless", "Gofasta.Lemmas.SchedFaultsChainHdr.sam_variants_agg_hdr_written_is_prefix", "Gofasta.Lemmas.SchedFaultsChainHdr.sam_variants_agg_header_fault_immediate", "Gofasta.Lemmas.SchedFaultsAgg.agg_fault_reported", "Gofasta.Lemmas.SchedFaultsAgg.agg_fault_reported'", "Gofasta.Lemmas.SchedFaultsAgg.agg_fault_maximal_run_write_error", "Gofasta.Lemmas.SchedFaultsAgg.agg_fault_beyond_run_harmless", "Gofasta.Lemmas.SchedFaultsAgg.agg_written_is_prefix", "Gofasta.Lemmas.SchedFaultsAgg.agg_nothing_before_all_arrived", "Gofasta.Lemmas.SchedFaultsAgg.chain_agg_fault_reported", "Gofasta.Lemmas.SchedFaultsAgg.chain_agg_fault_beyond_run_harmless", "Gofasta.Lemmas.SchedFaultsAgg.chain_agg_written_is_prefix", "Gofasta.Lemmas.SchedFaultsAgg.hdr_fault_reported", "Gofasta.Lemmas.SchedFaultsAgg.hdr_fault_beyond_run_harmless", "Gofasta.Lemmas.SchedFaultsAgg.hdr_written_is_prefix", "Gofasta.Lemmas.SchedFaultsAgg.header_fault_immediate", "Gofasta.Lemmas.SchedFaultsAgg.agg_hdr_fault_reported", "Gofasta.Lemmas.SchedFaultsAgg.agg_header_fault_immediate", "Gofasta.Lemmas.SchedFaultsAgg.snps_agg_fault_reported", "Gofasta.Lemmas.SchedFaultsAgg.snps_agg_fault_beyond_run_harmless", "Gofasta.Lemmas.SchedFaultsAgg.snps_agg_written_is_prefix", "Gofasta.Lemmas.SchedFaultsAgg.snps_agg_header_fault_immediate", "Gofasta.Lemmas.SchedFaultsAgg.snps_header_fault_immediate", "Gofasta.Lemmas.SchedFaultsAgg.variants_agg_fault_reported", "Gofasta.Lemmas.SchedFaultsAgg.variants_agg_fault_beyond_run_harmless", "Gofasta.Lemmas.SchedFaultsAgg.variants_agg_written_is_prefix", "Gofasta.Lemmas.SchedFaultsAgg.sam_variants_agg_fault_reported", "Gofasta.Lemmas.SchedFaultsAgg.sam_variants_agg_fault_beyond_run_harmless", "Gofasta.Lemmas.SchedFaultsAgg.sam_variants_agg_written_is_prefix", "Gofasta.Lemmas.SchedFaultsAgg.snps_agg_code_fault_reported", "Gofasta.Lemmas.SchedFaultsAgg.snps_agg_code_fault_beyond_run_harmless", "Gofasta.Lemmas.SchedFaultsAgg.snps_agg_code_written_is_prefix", "Gofasta.Lemmas.SchedFaultsAgg.snps_agg_code_only_header_before_all_arrived", "Gofasta.Lemmas.SchedFaultsAgg.variants_agg_code_fault_reported", "Gofasta.Lemmas.SchedFaultsAgg.variants_agg_code_fault_beyond_run_harmless", "Gofasta.Lemmas.SchedFaultsAgg.variants_agg_code_written_is_prefix", "Gofasta.Lemmas.SchedFaultsAgg.sam_variants_agg_code_fault_reported", "Gofasta.Lemmas.SchedFaultsAgg.sam_variants_agg_code_fault_beyond_run_harmless", "Gofasta.Lemmas.SchedFaultsAgg.sam_variants_agg_code_written_is_prefix", "Gofasta.Lemmas.SchedFaults.sink_eq_reportsFailure", "Gofasta.Lemmas.SchedFaults.fault_reported", "Gofasta.Lemmas.SchedFaults.fault_reported'", "Gofasta.Lemmas.SchedFaults.fault_beyond_run_harmless", "Gofasta.Lemmas.SchedFaults.written_is_prefix", "Gofasta.Lemmas.SchedFaults.fault_beyond_run_maximal", "Gofasta.Lemmas.SchedFaults.fault_maximal_run_write_error", "Gofasta.Lemmas.SchedFaults.chain_fault_reported", "Gofasta.Lemmas.SchedFaults.chain_fault_beyond_run_harmless", "Gofasta.Lemmas.SchedFaults.chain_written_is_prefix", "Gofasta.Lemmas.SchedFaults.chain_fault_maximal_run_write_error", "Gofasta.Lemmas.SchedFaults.snps_fault_reported", "Gofasta.Lemmas.SchedFaults.snps_fault_beyond_run_harmless", "Gofasta.Lemmas.SchedFaults.snps_written_is_prefix", "Gofasta.Lemmas.SchedFaults.updown_list_fault_reported", "Gofasta.Lemmas.SchedFaults.updown_list_written_is_prefix", "Gofasta.Lemmas.SchedFaults.variants_fault_reported", "Gofasta.Lemmas.SchedFaults.variants_fault_beyond_run_harmless", "Gofasta.Lemmas.SchedFaults.variants_written_is_prefix", "Gofasta.Lemmas.SchedFaults.sam_variants_fault_reported", "Gofasta.Lemmas.SchedFaults.sam_variants_fault_beyond_run_harmless", "Gofasta.Lemmas.SchedFaults.sam_variants_written_is_prefix", "Gofasta.Lemmas.SchedFaults.Unchecked.unchecked_loses", "Gofasta.Lemmas.SchedFaults.Unchecked.unchecked_loses_middle", "Gofasta.Lemmas.SchedFaults.Unchecked.checked_reports", "Gofasta.Props.Pipes.drivers_conform", "Gofasta.Lemmas.SchedChain.chain_error_reported", "Gofasta.Lemmas.SchedChain.chain_no_deadlock", "Gofasta.Lemmas.Sched.error_reported", "Gofasta.Lemmas.Sched.maximal_run_error", "Gofasta.Lemmas.Sched.no_deadlock"],
        "streams": {"C19": (250, 2500)},
        "thorough_seeds": 3,
        "cli": True,
        "level": "proof",
        "rule": "13 entry-point variants (snps, snps --aggregate, variants, variants --aggregate, sam toMultiAlign plain/wrapped, sam variants, closest plain / -n / --table, "
                "updown list, topranking list / --table) driven in-process with an io.Writer that fails from the k-th Write on, for EVERY k from 1 to the number of writes "
                "of the run (counted first); sam toPairAlign -o stdout and snps through the binary with stdout on /dev/full; required: an error at every k / non-zero exit",
    },
}
