"""Per-property configuration of bin/check: correspondence streams (quick n, thorough n per seed),
whether the CLI binary is needed, the non-triviality rule that the harness applies (field nt=1)."""

PROPS = {
    "C03": {
        "streams": {"C03": (300, 4000)},
        "thorough_seeds": 3,
        "shrink": True,
        "rule": "random reference (A/C/G/T or all 17 symbols, mixed case) and 1-30 rows (uniform over the 17 symbols / "
                "mutated copies), widths 1-300, both gap modes, random FASTA layout; run through snps.SNPs in-process; "
                "non-trivial = some row or the reference carries a non-A/C/G/T symbol; distinct = distinct (ref, rows, mode)",
    },
    "C17": {
        "streams": {"C17": (2000, 30000)},
        "thorough_seeds": 3,
        "rule": "the finite tables are decided outright by the kernel on the regenerated dictionaries (3375 codons, 32 characters); "
                "the stream runs alphabet.Translate (strict and lenient), Complement, ReverseComplement and the FastaRecord / "
                "EncodedFastaRecord complement methods on random sequences (A/C/G/T, sprinkled or uniform IUPAC, gaps, lower case, "
                "lengths not divisible by 3); non-trivial = the sequence contains a non-A/C/G/T symbol",
    },
    "C16": {
        "streams": {"C16": (3000, 60000)},
        "thorough_seeds": 3,
        "shrink": True,
        "rule": "half: valid alignments (1-8 records, widths 1-120, 17 symbols, mixed case, descriptions with spaces/tabs/leading blanks) under a "
                "random layout (per-record line widths, LF/CRLF, final newline or not) with the expected records known; half: the same files under 1-2 "
                "structured corruptions (delete/duplicate/blank/CR-only line, header without ID, blank first line, non-IUPAC byte, shortened/lengthened row in any "
                "record, no leading header, empty, only headers, empty last record, garbage line); all five readers run in-process on the same bytes with "
                "panic recovery and a time-out; non-trivial = corrupted, multi-record or CRLF; distinct = distinct byte stream",
    },
}
